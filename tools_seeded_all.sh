#!/bin/bash
# re-runs detection for every seeded change (or those matching $1); /repo must be clean and unused meanwhile
cd /verif
for d in seeded/*/; do
  n=$(basename $d)
  [ -n "$1" ] && ! echo "$n" | grep -qE "$1" && continue
  also=$(python3 -c "import json;print(' '.join(json.load(open('$d/meta.json')).get('also',[])))")
  ./tools_seeded.sh $n detect $also 2>&1 | grep detect | cut -c1-200
done
