#!/usr/bin/env python3
# Regenerates section 10.6 of DESIGN.md from /verif/seeded/*/{meta,result}.json
import json,glob,os,re
rows=[]
for d in sorted(glob.glob('/verif/seeded/*')):
    if not os.path.exists(d+'/meta.json'): continue
    m=json.load(open(d+'/meta.json')); r=json.load(open(d+'/result.json')) if os.path.exists(d+'/result.json') else {}
    det=r.get('detected',{})
    status=', '.join('%s %s'%(k,'caught' if v.get('exit')==1 else ('MISSED' if v.get('exit')==0 else 'exit %s'%v.get('exit'))) for k,v in sorted(det.items())) or 'not run'
    if r.get('first_attempt')=='missed': status+=' (missed by the first version of the check)'
    if r.get('obsolete'): status+=' (obsolete: '+r['obsolete']+')'
    def clean(x): return re.sub(r'\s+',' ',x).replace('|','/')
    rows.append('| %s | %s | %s | %s | %s |'%(os.path.basename(d),m['property'],clean(m['summary'])[:230],clean(m['needs'])[:200],status))
    if r.get('notes'): rows.append('| | | *%s* | | |'%clean(r['notes']))
txt='''Seeded changes were written by independent sub-agents that saw only the text of a
property and a scratch worktree of the library (nothing from /verif).  Each was confirmed
here in a scratch worktree (builds, the repository's tests pass, its demonstration fails
with the change and passes without: `tools_seeded.sh <name> verify`) and then applied to
/repo's working tree, the quick check of its property run, and /repo restored
(`tools_seeded.sh <name> detect`).  Patch, demonstration and results are in
/verif/seeded/<name>/.  "caught" = the check exits 1 with a VIOLATION line.

| seeded change | property | what it does | what it needs to manifest | quick check |
|---|---|---|---|---|
'''+'\n'.join(rows)+'\n'
p='/verif/DESIGN.md'; s=open(p).read()
a=s.index('### 10.6 Which checks catch which changes')
b=s.index('-------------------------------------------------------------------------------\n## Appendix A.')
s=s[:a]+'### 10.6 Which checks catch which changes\n\n'+txt+'\n\n'+s[b:]
open(p,'w').write(s)
print(len(rows),'rows')
