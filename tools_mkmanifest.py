import json,subprocess
props=[json.loads(l) for l in open('/verif/properties.jsonl')]
ids=[p['id'] for p in props]
hooks=subprocess.check_output(['git','-C','/repo','log','--format=%h %s']).decode().splitlines()
hookc=[l.split()[0] for l in hooks if l.split()[1]=='verif']
info=json.load(open('/verif/checks.json'))
checks=[];na=[]
for i in ids:
    if i in info['checks']:
        c=info['checks'][i]
        checks.append({"property_id":i,"quick_cmd":"./check %s --tier quick"%i,"thorough_cmd":"./check %s --tier thorough"%i,
          "evidence_file":"/verif/evidence/%s.json"%i,"replay_cmd_template":"./check %s --replay {path}"%i,"engine":"vh+tlc",
          "level_claimed":{"category":c['category'],"text":c['text'],"design_ref":c.get('design_ref','DESIGN.md section 5')},
          "level_note":c['note'],"technique":c['technique']})
    else:
        na.append({"property_id":i,"reason":info['na'].get(i,"check not built yet (build in progress); planned, see DESIGN.md section 5")})
m={"version":1,
 "setup_cmd":"cd /verif/harness && export GOFLAGS=-mod=mod GOPROXY=off GOSUMDB=off GOTOOLCHAIN=local && go build -tags verif -gcflags=all=-d=checkptr -o /dev/null ./cmd/vh && go build -race -tags verif -o /dev/null ./cmd/vh && java -cp /opt/veriftools/tla/tla2tools.jar tlc2.TLC -h >/dev/null 2>&1; true",
 "hooks":{"guard":"verif","enable":"go build -tags verif (the harness module /verif/harness replaces github.com/intel/fastgo with /repo; ./check rebuilds it on every invocation)","baseline_off_cmd":"cd /repo && go test -vet=off -count=1 ./...","source_commits":hookc,"add_only":True},
 "engines":[{"name":"vh+tlc","path":"/verif/check","serves_properties":[c['property_id'] for c in checks],"kind_free_text":"Go harness (driver + per-acceleration-level worker processes) that executes TLC-generated behaviours against the real code, records ndjson traces and validates them with TLC against the TLA+ contract specifications in /verif/spec; TLC also model-checks the design-level specifications"}],
 "checks":checks,
 "notes":info.get('notes',''),
 "not_applicable":na}
json.dump(m,open('/verif/MANIFEST.json','w'),indent=1)
