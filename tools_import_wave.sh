#!/bin/bash
# imports finished seeded changes of a wave (out2_*) that are not in /verif/seeded yet, verifies and runs detection
W=${2:-2}
for d in /tmp/mut/${1:-out2}_*/[CM]*; do
  [ -f $d/patch.diff ] && [ -f $d/meta.json ] || continue
  ls $d/*.go >/dev/null 2>&1 || continue
  id=$(basename $d); n=$(basename $(dirname $d) | sed 's/.*_//'); name="$(python3 -c "import json;print(json.load(open(\"$d/meta.json\"))[\"property\"])")-${n}${W}${id#M}"
  [ -d /verif/seeded/$name ] && continue
  mkdir -p /verif/seeded/$name; cp $d/patch.diff $d/meta.json /verif/seeded/$name/
  f=$(ls $d/*_test.go $d/demo_test.go 2>/dev/null | head -1); cp $f /verif/seeded/$name/demo_test.go.txt
  /verif/tools_seeded.sh $name verify 2>&1 | tail -3
  also=$(python3 -c "import json;print(' '.join(json.load(open('$d/meta.json')).get('also',[])))")
  /verif/tools_seeded.sh $name detect $also 2>&1 | grep detect | cut -c1-200
done
