#!/bin/bash
# usage: tools_revert_check.sh <commit-in-/repo> <property> [more properties]
# Reverts one fix: commit in /repo's working tree (uncommitted), runs the
# property's quick check, shows whether it fires, and restores the tree.
set -u
c="$1"; shift
cd /repo || exit 2
if [ -n "$(git status --porcelain)" ]; then echo "/repo is not clean"; exit 2; fi
git revert --no-commit "$c" >/dev/null 2>&1 || { echo "cannot revert $c"; git revert --abort 2>/dev/null; git checkout -- . ; exit 2; }
for p in "$@"; do
  out=$(cd /verif && timeout 1200 ./check "$p" 2>/dev/null)
  rc=$?
  echo "revert $c -> check $p: exit $rc, $(echo "$out" | grep -c '^VIOLATION') VIOLATION lines"
  echo "$out" | grep '^VIOLATION' | head -3
done
git revert --abort >/dev/null 2>&1 || true
git reset -q --hard HEAD
git status --porcelain | head -3
