------------------------------ MODULE Instances ------------------------------
(***************************************************************************)
(* C17: N independent Writer/Reader instances, each used by its own        *)
(* goroutine.  An instance alternates compute sections with I/O steps      *)
(* (calls on its own destination or source).  The only state shared        *)
(* between instances is the set of read-only tables of the library.  TLC   *)
(* enumerates every interleaving of the I/O steps; the harness enforces    *)
(* each interleaving on the real code (the I/O objects block on a gate)    *)
(* and compares every instance's result with its solo run.                 *)
(***************************************************************************)
EXTENDS Integers, Sequences, FiniteSets, TLC, Json

CONSTANTS N,             \* number of instances
          K,             \* I/O steps per instance
          DevSharedPool  \* deviation: working state (an inflater, a buffer) is recycled through a
                         \* package-level pool by an instance that goes on using it

VARIABLES pc,       \* pc[i]: I/O steps instance i has completed
          local,    \* local[p]: the mutable working state with identity p (instance i works on part[i])
          part,     \* part[i]: which working state instance i uses; its own unless it took one from the pool
          pool,     \* working states handed back for reuse
          tables,   \* shared read-only tables: [written |-> BOOLEAN]
          hist      \* the interleaving so far
vars == <<pc, local, part, pool, tables, hist>>

Inst == 1..N
Init == /\ pc = [i \in Inst |-> 0] /\ local = [i \in Inst |-> 0] /\ part = [i \in Inst |-> i] /\ pool = {}
        /\ tables = [written |-> FALSE] /\ hist = <<>>

\* one I/O step of instance i: reads the shared tables, updates only the state it works on
Step(i) ==
  /\ pc[i] < K
  /\ pc' = [pc EXCEPT ![i] = @ + 1]
  /\ local' = [local EXCEPT ![part[i]] = @ * 31 + pc[i] + 1]     \* depends on the history of whoever works on it
  /\ UNCHANGED <<tables, part, pool>>
  /\ hist' = Append(hist, i)

\* The library has no such pool.  With the deviation, an instance hands its working state to a
\* pool between two streams (Close) and keeps using it (Reset, Read), and an instance that has
\* not started yet takes its working state from the pool instead of allocating one.
Recycle(i) == /\ DevSharedPool /\ pc[i] > 0 /\ pc[i] < K /\ part[i] \notin pool
              /\ pool' = pool \cup {part[i]} /\ UNCHANGED <<pc, local, part, tables, hist>>
Acquire(j) == /\ DevSharedPool /\ pc[j] = 0 /\ part[j] = j
              /\ \E p \in pool : /\ part' = [part EXCEPT ![j] = p] /\ pool' = pool \ {p}
                                  /\ local' = [local EXCEPT ![p] = 0]          \* (it is reset for its new user)
              /\ UNCHANGED <<pc, tables, hist>>
Next == \E i \in Inst : Step(i) \/ Recycle(i) \/ Acquire(i)
Spec == Init /\ [][Next]_vars

Solo(k) == LET RECURSIVE F(_) F(j) == IF j = 0 THEN 0 ELSE F(j - 1) * 31 + j IN F(k)
C17_NoSharedWrite == ~tables.written
C17_SameAsSolo    == \A i \in Inst : local[part[i]] = Solo(pc[i])
C17_NothingShared == \A i, j \in Inst : i # j => part[i] # part[j]
Done == \A i \in Inst : pc[i] = K
PrintSchedule == Done => PrintT("BEH " \o ToJson(hist))
=============================================================================
