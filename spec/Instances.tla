------------------------------ MODULE Instances ------------------------------
(***************************************************************************)
(* C17: N independent Writer/Reader instances, each used by its own        *)
(* goroutine.  An instance alternates compute sections with I/O steps      *)
(* (calls on its own destination or source).  The only state shared        *)
(* between instances is the set of read-only tables of the library.  TLC   *)
(* enumerates every interleaving of the I/O steps; the harness enforces    *)
(* each interleaving on the real code (the I/O objects block on a gate)    *)
(* and compares every instance's result with its solo run.                 *)
(***************************************************************************)
EXTENDS Integers, Sequences, FiniteSets, TLC, Json

CONSTANTS N,      \* number of instances
          K       \* I/O steps per instance

VARIABLES pc,       \* pc[i]: I/O steps instance i has completed
          local,    \* local[i]: abstract private state of instance i (a function of its own steps only)
          tables,   \* shared read-only tables: [written |-> BOOLEAN]
          hist      \* the interleaving so far
vars == <<pc, local, tables, hist>>

Inst == 1..N
Init == pc = [i \in Inst |-> 0] /\ local = [i \in Inst |-> 0] /\ tables = [written |-> FALSE] /\ hist = <<>>

\* one I/O step of instance i: reads the shared tables, updates only its own state
Step(i) ==
  /\ pc[i] < K
  /\ pc' = [pc EXCEPT ![i] = @ + 1]
  /\ local' = [local EXCEPT ![i] = @ * 31 + pc[i] + 1]     \* depends on i's own history only
  /\ UNCHANGED tables
  /\ hist' = Append(hist, i)
Next == \E i \in Inst : Step(i)
Spec == Init /\ [][Next]_vars

Solo(k) == LET RECURSIVE F(_) F(j) == IF j = 0 THEN 0 ELSE F(j - 1) * 31 + j IN F(k)
C17_NoSharedWrite == ~tables.written
C17_SameAsSolo    == \A i \in Inst : local[i] = Solo(pc[i])
Done == \A i \in Inst : pc[i] = K
PrintSchedule == Done => PrintT("BEH " \o ToJson(hist))
=============================================================================
