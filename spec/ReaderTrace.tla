------------------------------ MODULE ReaderTrace ------------------------------
(* Trace validation for ReaderContract (see WriterTrace for the scheme). *)
EXTENDS ReaderContract, Json

VARIABLES l, viol, noted   \* noted: clauses already reported for the current trace
tvars == <<rvars, l, viol, noted>>

Trace == ndJsonDeserialize("trace.ndjson")
\* a clause is reported once per trace (the first event that violates it)
New(fs)  == fs \ noted
\* (at most MaxViol violating events are kept: a change that breaks every case must not make validation quadratic)
MaxViol == 3000
Note(fs) == IF New(fs) = {} \/ Len(viol) >= MaxViol THEN viol ELSE Append(viol, [l |-> l, c |-> New(fs)])
Rec(fs)      == viol' = Note(fs) /\ noted' = noted \cup fs
RecBegin(fs) == viol' = (IF fs = {} \/ Len(viol) >= MaxViol THEN viol ELSE Append(viol, [l |-> l, c |-> fs])) /\ noted' = fs

TInit == l = 1 /\ viol = <<>> /\ noted = {} /\ RInit

TNext ==
  /\ l <= Len(Trace)
  /\ l' = l + 1
  /\ LET e == Trace[l] IN
     CASE e.ev = "Begin" -> Begin(e) /\ RecBegin(BeginFailed(e))
       [] e.ev = "Src"   -> Src(e)   /\ Rec(SrcFailedC(e))
       [] e.ev = "Gate"  -> Gate(e)  /\ Rec(GateFailed(e))
       [] e.ev = "Read"  -> Read(e)  /\ Rec(ReadFailed(e))
       [] e.ev = "End"   -> End(e)   /\ Rec(EndFailed(e))
       \* member-by-member reading: the Header values kept across Reset are still each member's own
       \* mechanism events of the Reader (hooks): judged by ReaderMechTrace, not by the contract
       [] e.ev = "RMech" -> UNCHANGED <<rvars, viol, noted>>
       \* after the Reader has moved on to another source, the earlier (caller-owned) source is where it was left
       [] e.ev = "Prev"  -> UNCHANGED rvars /\ Rec(Chk("C05.earlier_source_untouched", e.rest = e.wantRest) \cup Chk("C13.earlier_source_untouched", e.rest = e.wantRest))
       [] e.ev = "Hdrs"  -> UNCHANGED rvars /\ Rec(Chk("C08.member_headers", e.ok))
       \* the process died or made no progress inside this case (or flooded the trace without ever
       \* returning): whatever the property of the running check says the Reader returns, it did not
       [] e.ev \in {"Crash", "Hang"} -> UNCHANGED rvars /\ RecBegin({"C03.nopanic", "C03.terminates"} \cup {e.clauses[i] : i \in DOMAIN e.clauses})

TSpec == TInit /\ [][TNext]_tvars
Report == (l = Len(Trace) + 1) => PrintT("DONE " \o ToString(Len(Trace)) \o " " \o ToJson(viol))
=============================================================================
