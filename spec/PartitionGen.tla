------------------------------ MODULE PartitionGen ------------------------------
(***************************************************************************)
(* Generator of pairs of Write partitions with common Flush positions      *)
(* (C09, also used for C19 and C01): the data is U abstract units long;    *)
(* a partition is the set of unit boundaries at which one Write ends and   *)
(* the next begins; Flush positions are boundaries common to both.  TLC    *)
(* enumerates every triple (flushes, cutsA, cutsB) within the bounds; the  *)
(* harness maps unit boundaries to byte offsets at and around the real     *)
(* thresholds of the implementation.                                       *)
(***************************************************************************)
EXTENDS Integers, Sequences, FiniteSets, TLC, Json

CONSTANTS U, MaxFlush, MaxCuts

VARIABLES stage, fl, ca, cb
vars == <<stage, fl, ca, cb>>

Pos == 1..(U - 1)
Small(n) == { S \in SUBSET Pos : Cardinality(S) <= n }

Init == stage = 0 /\ fl = {} /\ ca = {} /\ cb = {}
PickF == stage = 0 /\ \E F \in Small(MaxFlush) : fl' = F /\ stage' = 1 /\ UNCHANGED <<ca, cb>>
PickA == stage = 1 /\ \E A \in Small(MaxCuts)  : ca' = A /\ stage' = 2 /\ UNCHANGED <<fl, cb>>
PickB == stage = 2 /\ \E B \in Small(MaxCuts)  : B # ca /\ cb' = B /\ stage' = 3 /\ UNCHANGED <<fl, ca>>
Next == PickF \/ PickA \/ PickB
Spec == Init /\ [][Next]_vars

SetToSeq(S) == LET RECURSIVE F(_) F(T) == IF T = {} THEN <<>> ELSE LET m == CHOOSE x \in T : \A y \in T : x <= y IN <<m>> \o F(T \ {m}) IN F(S)
PrintPair == stage = 3 => PrintT("BEH " \o ToJson([f |-> SetToSeq(fl), a |-> SetToSeq(ca), b |-> SetToSeq(cb)]))
=============================================================================
