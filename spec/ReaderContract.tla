---------------------------- MODULE ReaderContract ----------------------------
(***************************************************************************)
(* Observable contract of a DEFLATE-family Reader (flate | gzip | zlib)    *)
(* together with its environment: the source that hands out the compressed *)
(* bytes and the caller that reads.                                        *)
(*                                                                         *)
(* A trace is a sequence of segments.  A segment starts with a Begin event *)
(* (a new Reader, or Reset of a used one - the contract is the same, that  *)
(* is C13) carrying what independent oracles say about the bytes of the    *)
(* source; then Src events (one per call the Reader makes on the source),  *)
(* Gate (the Reader asks for bytes beyond the released prefix of a gated   *)
(* source), Read (one per caller Read) and End (position of the caller's   *)
(* source after the final result).                                         *)
(*                                                                         *)
(* As in WriterContract every event has a deterministic effect (Step) and  *)
(* a set of violated clauses (Failed); clause names start with the id of   *)
(* the property they belong to.                                            *)
(***************************************************************************)
EXTENDS Integers, Sequences, FiniteSets, TLC

VARIABLES
  mode,       \* "none" | "run" | "done"
  b,          \* the Begin record of the current segment
  given,      \* bytes returned to the caller in this segment
  rerr,       \* first non-nil result class of this segment ("nil" before)
  pulled,     \* bytes the source has handed out in this segment
  srcFailed,  \* the source has returned the injected error
  gated,      \* the Reader has asked for bytes beyond the released prefix
  grp,        \* key of the current comparison group ("" = none)
  gout        \* outcome of the first member of the group: <<given, err, digest>>

rvars == <<mode, b, given, rerr, pulled, srcFailed, gated, grp, gout>>

Chk(name, cond) == IF cond THEN {} ELSE {name}

NoBegin == [ev |-> "none"]
RInit ==
  /\ mode = "none" /\ b = NoBegin /\ given = 0 /\ rerr = "nil" /\ pulled = 0
  /\ srcFailed = FALSE /\ gated = FALSE /\ grp = "" /\ gout = <<>>

\* A new Reader on a source, or Reset(source) of a used Reader.
Begin(e) ==
  /\ mode' = "run" /\ b' = e /\ given' = 0 /\ rerr' = "nil" /\ pulled' = 0
  /\ srcFailed' = FALSE /\ gated' = FALSE
  \* segments that take no part in a comparison (group "") leave the current group alone
  /\ IF e.group # "" /\ e.group # grp THEN grp' = e.group /\ gout' = <<>> ELSE UNCHANGED <<grp, gout>>

BeginFailed(e) ==
  \* the oracles must agree where the property leaves nothing open (harness sanity, R4)
     Chk("HARNESS.oracles_agree", e.std.verdict = "eof" => (e.ref.verdict = "eof" /\ e.ref.len = e.std.len /\ e.oracleSame))

-----------------------------------------------------------------------------
Src(e) ==
  /\ mode = "run"
  /\ pulled' = e.pos
  /\ srcFailed' = (srcFailed \/ e.err = "injected")
  /\ UNCHANGED <<mode, b, given, rerr, gated, grp, gout>>

SrcFailedC(e) == {}

\* The Reader asked a gated source for more than the released prefix.
Gate(e) ==
  /\ mode = "run" /\ gated' = TRUE
  /\ UNCHANGED <<mode, b, given, rerr, pulled, srcFailed, grp, gout>>

GateFailed(e) ==
     Chk("C11.no_wait", b.decAt >= 0 => (e.given = b.decAt /\ b.mayGate))

-----------------------------------------------------------------------------
\* Which final results the oracles allow.
AllowedFinal(err, dead) ==
  CASE err = "eof"      -> b.ref.verdict = "eof" /\ (~srcFailed \/ pulled >= b.ref.end)
    [] err = "uxeof"    -> b.std.verdict # "eof" /\ b.ref.verdict \in {"uxeof", "corrupt"} /\ ~srcFailed
    \* corrupt: the bytes are not the beginning of any valid stream - compress/flate says so, or the
    \* permissive reference found a defect (ref.dead: also a block that can never end)
    \* (dead: both oracles ran out of input, but no continuation of the bytes gets a decoder past
    \*  the item that was pending - established by the harness only when this case arises)
    [] err = "corrupt"  -> b.std.verdict # "eof" /\ (b.std.verdict = "corrupt" \/ b.ref.dead \/ dead)
    [] err = "injected" -> srcFailed
    [] OTHER            -> FALSE

Read(e) ==
  /\ mode = "run"
  /\ given' = given + e.n
  /\ rerr' = IF rerr = "nil" THEN e.err ELSE rerr
  /\ UNCHANGED <<mode, b, pulled, srcFailed, gated, grp, gout>>

ReadFailed(e) ==
  LET g2 == given + e.n
      first == rerr = "nil"
      cont == b.kind # "flate"
  IN
     Chk("C03.nopanic", e.panic = "")
  \* a Read never returns more than the caller's buffer holds (the recorder only merges
  \* Reads that satisfy this, so it is checked here on every unmerged event)
  \cup Chk("C03.count", e.n >= 0 /\ (e.cnt = 1 => e.n <= e.k))
  \cup Chk("C07.count", cont => (e.n >= 0 /\ (e.cnt = 1 => e.n <= e.k)))
  \* every byte handed out is a byte the reference inflater produces at that position
  \cup Chk("C03.real_bytes", e.ok /\ g2 <= b.ref.len)
  \cup Chk("C13.no_leak", (b.ctor = "reset") => (e.ok /\ g2 <= b.ref.len))
  \cup Chk("C03.sticky", ~first => (e.err = rerr /\ e.n = 0))
  \cup Chk("C03.eof_only_if_valid", (first /\ e.err = "eof") => (b.ref.verdict = "eof" /\ g2 = b.ref.len))
  \cup Chk("C07.eof_only_if_checksum", (cont /\ first /\ e.err = "eof") => (b.ref.verdict = "eof" /\ g2 = b.ref.len /\ e.ok))
  \cup Chk("C03.error_class", (first /\ e.err \notin {"nil", "eof", "injected"}) => AllowedFinal(e.err, e.dead))
  \cup Chk("C07.prefix_only", cont => (e.ok /\ g2 <= b.ref.len))
  \cup Chk("C07.sticky", (cont /\ ~first) => (e.err = rerr /\ e.n = 0))
  \cup Chk("C07.cut_is_uxeof", (cont /\ first /\ e.err # "nil" /\ b.cut /\ ~srcFailed) => e.err = "uxeof")
  \cup Chk("C02.same_as_std", (first /\ e.err # "nil" /\ b.std.verdict = "eof" /\ ~srcFailed) => (e.err = "eof" /\ g2 = b.std.len))
  \cup Chk("C06.readback", (cont /\ first /\ e.err # "nil" /\ b.std.verdict = "eof" /\ ~srcFailed) => (e.err = "eof" /\ g2 = b.std.len))
  \cup Chk("C06.bytes", cont => e.ok)
  \cup Chk("C08.concat", (b.kind = "gzip" /\ first /\ e.err # "nil" /\ b.std.verdict = "eof" /\ ~srcFailed) => (e.err = "eof" /\ g2 = b.ref.len /\ e.ok))
  \* a stream written by an encoder (fastgo's or the standard library's) is read back as what was written
  \cup Chk("C08.written_readable", (b.kind = "gzip" /\ b.wantLen >= 0 /\ first /\ e.err # "nil" /\ ~srcFailed) => (e.err = "eof" /\ g2 = b.wantLen))
  \cup Chk("C06.written_readable", (cont /\ b.wantLen >= 0 /\ first /\ e.err # "nil" /\ ~srcFailed) => (e.err = "eof" /\ g2 = b.wantLen))
  \cup Chk("C15.reported", (first /\ e.err # "nil" /\ srcFailed) =>
             (e.err = "injected" \/ (e.err = "eof" /\ b.ref.verdict = "eof" /\ pulled >= b.ref.end)))
  \* ... and byte for byte what compress/flate returns (its output equals the reference's, see BeginFailed)
  \cup Chk("C02.same_bytes", (b.std.verdict = "eof") => (e.ok /\ g2 <= b.std.len))
  \* ... and a panic is not a way of returning them
  \cup Chk("C02.no_panic", (b.std.verdict = "eof") => e.panic = "")
  \cup Chk("C15.correct_prefix", b.failing => (e.ok /\ g2 <= b.ref.len))
  \cup Chk("C15.sticky", (~first /\ rerr = "injected") => (e.err = "injected" /\ e.n = 0))
  \cup Chk("C15.not_invented", (first /\ e.err = "injected") => srcFailed)
  \cup Chk("C11.data_before_error", (first /\ e.err = "injected" /\ b.decAt >= 0) => g2 >= b.decAt)
  \cup Chk("C11.data_before_garbage", (first /\ e.err # "nil" /\ b.after = "garbage" /\ b.decAt >= 0) => g2 >= b.decAt)
  \cup Chk("C11.eof_without_more", (first /\ e.err = "eof" /\ b.decAt >= 0 /\ b.released = b.ref.end /\ b.kind # "gzip") => ~gated)

-----------------------------------------------------------------------------
\* End of a segment: where the caller's source stands, and the group comparison.
End(e) ==
  /\ mode = "run" /\ mode' = "done"
  /\ gout' = IF gout = <<>> /\ b.group # "" THEN <<given, rerr, e.digest>> ELSE gout
  /\ UNCHANGED <<b, given, rerr, pulled, srcFailed, gated, grp>>

EndFailed(e) ==
     Chk("C03.terminates", rerr # "nil" \/ b.partial)
  \* a stream compress/flate accepts is read to its io.EOF (the caller's Reads were not cut short, the source did not fail)
  \cup Chk("C02.reaches_eof", (b.std.verdict = "eof" /\ ~b.partial /\ ~srcFailed) => rerr = "eof")
  \cup Chk("C05.exact_end", (rerr = "eof" /\ b.exact /\ ~b.partial) => e.rest = b.sLen - b.ref.end)
  \cup Chk("C08.member_end", (rerr = "eof" /\ b.exact /\ b.member) => e.rest = b.sLen - b.ref.end)
  \cup Chk("C06.header", b.hdrCheck => e.hdrOK)
  \cup Chk("C08.written_digest", (b.kind = "gzip" /\ b.wantLen >= 0 /\ rerr = "eof") => (given = b.wantLen /\ e.digest = b.wantDigest))
  \cup Chk("C06.written_digest", (b.kind # "flate" /\ b.wantLen >= 0 /\ rerr = "eof") => (given = b.wantLen /\ e.digest = b.wantDigest))
  \* all members of a group end the same way (C04: schedules, C18: acceleration levels, C13: fresh vs Reset)
  \cup LET same  == (b.group # "" /\ gout # <<>>) => (gout = <<given, rerr, e.digest>>)
           \* known finding F-C04a, characterised here so that nothing else hides behind it: a truncated
           \* stream, unexpected EOF under both schedules, and at most two bytes fewer or more delivered
           \* (the Reader builds multi-symbol decoding tables for a final block when enough input is
           \* pending, and a table entry whose last symbol is cut off is not decoded at all)
           delta == IF gout # <<>> THEN (IF given >= gout[1] THEN given - gout[1] ELSE gout[1] - given) ELSE 0
           minor == /\ b.groupClause = "C04.same_outcome" /\ b.truncated /\ gout # <<>>
                    /\ rerr = "uxeof" /\ gout[2] = "uxeof" /\ delta <= 2
       IN Chk(IF minor THEN "C04.truncated_tail_by_schedule" ELSE b.groupClause, same)
=============================================================================
