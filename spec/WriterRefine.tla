------------------------------ MODULE WriterRefine ------------------------------
(***************************************************************************)
(* WriterMech refines WriterContract.  The implementation-shaped model is  *)
(* run together with a monitor that holds the contract's abstract state:   *)
(* whenever an API call of the mechanism returns, the event a recorder     *)
(* would log (answer, destination activity, what the emitted items decode  *)
(* to) is built from the mechanism's state and judged by the same clauses  *)
(* that judge traces of the real code.  TLC checks that no clause is ever  *)
(* violated - with the deviation constants of WriterMech set to what the   *)
(* pinned code did, it returns the clause names as counterexamples.        *)
(***************************************************************************)
EXTENDS WriterMech

VARIABLES m_mode, m_kind, m_level, m_window, m_accel, m_period, m_acc, m_dec, m_tail,
          m_flushes, m_emitted, m_downSeen, m_closeFailed, m_cerr,
          req,        \* bytes offered by the Write in progress
          acc0, calls0, out0,   \* mechanism counters when the call started
          mviol       \* contract clauses violated so far

mvars == <<m_mode, m_kind, m_level, m_window, m_accel, m_period, m_acc, m_dec, m_tail,
           m_flushes, m_emitted, m_downSeen, m_closeFailed, m_cerr>>
avars == <<req, acc0, calls0, out0>>

C == INSTANCE WriterContract WITH
       StdQuirks <- FALSE,
       mode <- m_mode, kind <- m_kind, level <- m_level, window <- m_window, accel <- m_accel,
       period <- m_period, acc <- m_acc, dec <- m_dec, tail <- m_tail, flushes <- m_flushes,
       emitted <- m_emitted, downSeen <- m_downSeen, closeFailed <- m_closeFailed, cerr <- m_cerr

\* what independent decoders make of the items emitted so far (all decoders agree in the model)
ProjOf(o) ==
  LET p == Parse(o, 0, "empty")
      st == IF ~p.ok /\ p.tail # "garbage" THEN "corrupt" ELSE IF p.tail \in {"final", "garbage"} THEN "done" ELSE "more"
      tl == IF p.tail \in {"noeob", "badpad"} THEN "mid" ELSE IF p.tail = "garbage" THEN "final" ELSE p.tail
  IN [st |-> st, len |-> p.dec, ok |-> TRUE, maxd |-> 0, tail |-> tl,
      trail |-> IF p.tail = "garbage" THEN 1 ELSE 0, hdr |-> TRUE, trl |-> TRUE]
DecOf(o) == LET r == ProjOf(o) IN [st |-> r.st, len |-> r.len, ok |-> TRUE, hdr |-> TRUE]

ErrClass(e) == IF e = "nil" THEN "nil" ELSE IF e = "dst" THEN "dst" ELSE "other"
OpName(n) == n   \* "Write" | "Flush" | "Close"

\* the event a recorder would log when the call in progress returns (primed = state at return)
Event ==
  [ev |-> last'.name, n |-> IF last'.name = "Write" THEN req ELSE 0,
   ret |-> IF last'.name = "Write" /\ last'.err = "nil" THEN req ELSE 0,
   err |-> IF panicked' THEN "panic" ELSE ErrClass(last'.err),
   panic |-> IF panicked' THEN "panic" ELSE "",
   calls |-> calls' - calls0', bytes |-> Len(out') - Len(out0'),
   down |-> down', after |-> afterCalls',
   ref |-> ProjOf(out'), std |-> DecOf(out'), fg |-> DecOf(out')]

RInit ==
  /\ Init
  /\ m_mode = "open" /\ m_kind = "flate" /\ m_level = 1 /\ m_window = 32768 /\ m_accel = FALSE
  /\ m_period = 0 /\ m_acc = 0 /\ m_dec = 0 /\ m_tail = "empty" /\ m_flushes = 0 /\ m_emitted = 0
  /\ m_downSeen = FALSE /\ m_closeFailed = FALSE /\ m_cerr = FALSE
  /\ req = 0 /\ acc0 = 0 /\ calls0 = 0 /\ out0 = <<>> /\ mviol = {}

Starts   == pc = "idle" /\ nops' = nops + 1 /\ last'.name # "Reset" /\ cur'.name # "none" /\ (pc' # "idle" \/ last' # last \/ TRUE)
IsReset  == pc = "idle" /\ nops' = nops + 1 /\ last'.name = "Reset" /\ pc' = "idle" /\ cur' = cur
Returns  == pc' = "idle" /\ (pc # "idle" \/ (nops' = nops + 1 /\ ~IsReset))

RNext ==
  /\ Next
  \* remember where the call started
  /\ IF pc = "idle" /\ nops' = nops + 1 /\ ~IsReset
       THEN req' = cur'.n /\ acc0' = acc /\ calls0' = calls /\ out0' = out
       ELSE IF IsReset THEN req' = 0 /\ acc0' = 0 /\ calls0' = 0 /\ out0' = <<>>
       ELSE UNCHANGED avars
  \* the monitor
  /\ IF IsReset THEN C!Reset([ev |-> "Reset"]) /\ UNCHANGED mviol
     ELSE IF Returns
       THEN /\ C!Call(Event)
            /\ mviol' = mviol \cup { c \in C!Failed(Event) : TRUE }
       ELSE UNCHANGED <<mvars, mviol>>

RSpec == RInit /\ [][RNext]_<<vars, mvars, avars, mviol>>

Refines == mviol = {}
=============================================================================
