---------------------------- MODULE WindowBounds ----------------------------
(***************************************************************************)
(* The position arithmetic of WindowMech for ALL sizes: where the write    *)
(* position of the inflater's output window can be, given only             *)
(*     Slack >= 2 + MaxCopy   (two parked literals and a longest copy fit   *)
(*                             behind the window)                          *)
(*     Slop  >= 2 + MaxCopy   (the vector loop, which tests its limit only  *)
(*                             before a lookup, cannot leave the window)    *)
(* Values are left out (WindowMech checks them for small sizes with TLC);  *)
(* the inductive invariant below is discharged by Apalache for unbounded   *)
(* integers, hence also for 32768 / 288 / 274 / 258.                       *)
(***************************************************************************)
EXTENDS Integers

CONSTANTS
  \* @type: Int;
  H,
  \* @type: Int;
  Slack,
  \* @type: Int;
  MaxCopy,
  \* @type: Int;
  Slop

Sizes == H >= 1 /\ MaxCopy >= 1 /\ Slack >= 2 + MaxCopy /\ Slop >= 2 + MaxCopy
ASSUME Sizes
\* (for Apalache: the constants range over all integers that satisfy the assumption)
CInit == H \in Int /\ Slack \in Int /\ MaxCopy \in Int /\ Slop \in Int /\ Sizes

VARIABLES
  \* @type: Int;
  w,       \* write position
  \* @type: Str;
  incall,  \* "no" | "vec" | "port"
  \* @type: Bool;
  oob      \* a write went beyond the buffer, or the portable loop was entered beyond the window

L == 2 * H
Cap == L + Slack

Init == w = 0 /\ incall = "no" /\ oob = FALSE

\* an entry produces a literals (0..3) and, if it ends in a length symbol (then a <= 2), c more bytes
Entry(a, c) == a \in 0..3 /\ c \in 0..MaxCopy /\ (c > 0 => a <= 2)

\* a decode call starts: slide if the write position is at or beyond the window
Start(x) == IF x >= L THEN H ELSE x

\* portable loop: what fits goes into the window, the rest is parked and written behind it
Portable(a, c) ==
  /\ Entry(a, c)
  /\ incall \in {"no", "port", "vec"}
  /\ LET x0 == IF incall = "no" THEN Start(w) ELSE w
         tot == a + c
         fits == x0 + tot <= L
     IN /\ oob' = (oob \/ x0 > L \/ x0 + tot > Cap)
        /\ w' = x0 + tot
        /\ incall' \in (IF fits THEN {"port", "no"} ELSE {"no"})

\* vector loop: entered with more than Slop bytes free, continued while the position is within
\* its shortened window; the entry is written in full
Vector(a, c) ==
  /\ Entry(a, c)
  /\ incall \in {"no", "vec"}
  /\ LET x0 == IF incall = "no" THEN Start(w) ELSE w
     IN /\ (incall = "no" => L - x0 > Slop)
        /\ (incall = "vec" => x0 <= L - Slop)
        /\ oob' = (oob \/ x0 + a + c > Cap)
        /\ w' = x0 + a + c
        /\ incall' \in {"vec", "no"}

\* the roll-back of a half-read copy ends the call where the entry started
Rollback ==
  /\ incall \in {"no", "port", "vec"}
  /\ w' = (IF incall = "no" THEN Start(w) ELSE w) /\ incall' = "no" /\ UNCHANGED oob

Next == \/ \E a \in 0..3 : \E c \in 0..MaxCopy : Portable(a, c) \/ Vector(a, c)
        \/ Rollback

\* the inductive invariant
IndInv ==
  /\ ~oob
  /\ w >= 0 /\ w <= L + 2 + MaxCopy
  /\ incall \in {"no", "vec", "port"}
  /\ (incall # "no" => w <= L)
IndInit == w \in Int /\ incall \in {"no", "vec", "port"} /\ oob \in BOOLEAN /\ IndInv
Safe == ~oob /\ w <= Cap
=============================================================================
