------------------------------ MODULE WindowMech ------------------------------
(***************************************************************************)
(* The output side of the inflater (compress/flate: decompressor.step,     *)
(* decomperss, decodeHuffmanLargeLoop, decodeHuffman): a history buffer of *)
(* 2*H bytes plus Slack bytes behind it; decoding-table entries that yield *)
(* up to three symbols (literals, the last one possibly a length symbol or *)
(* the end of the block); what does not fit the 2*H bytes is parked        *)
(* (pending literals, the rest of a copy) and written behind the window    *)
(* when the decode call returns; the window slides by H when the next call *)
(* starts at or beyond 2*H.  The vector loop runs on a shortened window    *)
(* (Slop bytes kept free) and checks the limit only before a lookup; when  *)
(* the input at hand ends it hands over to the portable loop, whose window *)
(* test is an equality test.                                               *)
(*                                                                         *)
(* Bytes are abstracted to values: a literal produces a fresh value, a     *)
(* copy repeats the values at its distance; `expect` is the value sequence *)
(* the tokens mean, independent of the mechanism.                          *)
(***************************************************************************)
EXTENDS Integers, Sequences, FiniteSets, TLC

CONSTANTS H,          \* history size (32 KiB in reality)
          Slack,      \* bytes behind the window (lookAhead, 288)
          MaxCopy,    \* longest copy (258)
          Slop,       \* output the vector loop keeps free (outBufferSlop, 274); 0 = no vector loop
          MaxEntries, \* table entries per behaviour
          DevKeepParkedOnRollback,  \* deviation: the roll-back of a half-read copy forgets to drop the parked literals
          DevEobCountsAsParked      \* deviation: an end-of-block symbol is counted among the parked literals

L == 2 * H            \* the window proper
Cap == L + Slack      \* the whole buffer

VARIABLES buf,        \* buf[i], i in 0..Cap-1: the value stored there (-1: never written)
          w, r,       \* write and read positions (f.writePos, f.readPos)
          expect,     \* the values of the stream decoded so far, as the tokens define them
          delivered,  \* the values handed to the caller
          n,          \* entries decoded
          full,       \* the last decode call stopped because the window was full
          oob,        \* a write or a slice went outside the buffer (a panic in Go)
          pend,       \* an entry whose copy could not be completed (input ran out) and is retried: <<>> or <<entry>>
          incall      \* "no": between decode calls; "vec" / "port": inside one, in the vector / portable loop
vars == <<buf, w, r, expect, delivered, n, full, oob, pend, incall>>

Init ==
  /\ buf = [i \in 0..Cap - 1 |-> -1] /\ w = 0 /\ r = 0 /\ expect = <<>> /\ delivered = <<>>
  /\ n = 0 /\ full = FALSE /\ oob = FALSE /\ pend = <<>> /\ incall = "no"

\* an entry: nl literals (0..2), then last \in {"lit", "copy", "eob"}; a copy has len and dist
Entries(avail) ==
  { [nl |-> a, last |-> k, len |-> l, dist |-> d] :
      a \in 0..2, k \in {"lit", "copy", "eob"}, l \in 1..MaxCopy, d \in 1..H } 

Valid(e) == e.last = "copy" => e.dist <= Len(expect) + e.nl /\ e.dist <= H
Canon(e) == IF e.last = "copy" THEN e ELSE [e EXCEPT !.len = 1, !.dist = 1]

\* the values an entry means, appended to expect
RECURSIVE CopyVals(_, _, _)
CopyVals(s, len, dist) == IF len = 0 THEN s ELSE CopyVals(Append(s, s[Len(s) + 1 - dist]), len - 1, dist)
Fresh(s) == Len(s)   \* the value of a literal decoded when s is what came before
RECURSIVE Lits(_, _)
Lits(s, k) == IF k = 0 THEN s ELSE Lits(Append(s, Fresh(s)), k - 1)
Means(s, e) ==
  LET a == Lits(s, e.nl) IN
  CASE e.last = "lit"  -> Lits(a, 1)
    [] e.last = "eob"  -> a
    [] e.last = "copy" -> CopyVals(a, e.len, e.dist)

\* store values vs (a sequence) at position p of buffer b; out-of-range cells are dropped and flagged
Store(b, p, vs) == [i \in 0..Cap - 1 |-> IF i >= p /\ i < p + Len(vs) THEN vs[i - p + 1] ELSE b[i]]
Fits(p, k) == p + k <= Cap

\* byteCopy inside the buffer: len values from distance dist, starting at p
RECURSIVE BCopy(_, _, _, _)
BCopy(b, p, len, dist) == IF len = 0 \/ p >= Cap \/ p - dist < 0 THEN b
                          ELSE BCopy([b EXCEPT ![p] = b[p - dist]], p + 1, len - 1, dist)

-----------------------------------------------------------------------------
(* step(): start of a decode call - everything produced has been delivered; slide if needed *)
Slide(b, pos) == [i \in 0..Cap - 1 |-> IF i < H THEN b[pos - H + i] ELSE b[i]]

\* The portable loop on one entry, starting at written = x in buffer b.
\* Returns [b, x, parkedLits (values), parkedCopy (len), dist, stop ("ok" | "full"), bad (limit test missed)]
Portable(b, x, e, vals) ==
  \* vals: the values the entry's literals (and a last literal) produce, in order
  LET nsym == e.nl + 1
      \* literals written before the window is full
      room == IF x <= L THEN L - x ELSE 0
      missed == x > L                       \* the equality test len(output) == written can no longer fire
      litCount == e.nl + (IF e.last = "lit" THEN 1 ELSE 0)
      wl == IF litCount <= room THEN litCount ELSE room       \* literals that fit
      b1 == Store(b, x, SubSeq(vals, 1, wl))
      x1 == x + wl
  IN IF missed THEN [b |-> b, x |-> x, pl |-> <<>>, pc |-> 0, dist |-> 0, stop |-> "full", bad |-> TRUE]
     ELSE IF wl < litCount
       THEN \* the window filled at a literal: the remaining literals are parked; a length symbol
            \* at the end of the entry is still processed (its whole copy is parked), an end of
            \* block is consumed
            [b |-> b1, x |-> x1,
             pl |-> SubSeq(vals, wl + 1, litCount) \o (IF DevEobCountsAsParked /\ e.last = "eob" THEN <<-2>> ELSE <<>>),
             pc |-> IF e.last = "copy" THEN e.len ELSE 0, dist |-> e.dist, stop |-> "full", bad |-> FALSE]
     ELSE IF e.last = "copy"
       THEN LET avail == L - x1
                fit == IF e.len <= avail THEN e.len ELSE avail
            IN [b |-> BCopy(b1, x1, fit, e.dist), x |-> x1 + fit, pl |-> <<>>, pc |-> e.len - fit, dist |-> e.dist,
                stop |-> IF fit < e.len THEN "full" ELSE "ok", bad |-> FALSE]
     ELSE [b |-> b1, x |-> x1, pl |-> <<>>, pc |-> 0, dist |-> 0, stop |-> "ok", bad |-> FALSE]

\* decomperss() after the loop: parked literals, then the parked copy, behind what was written
Flush(res) ==
  LET p1 == res.x + Len(res.pl)
      b1 == Store(res.b, res.x, res.pl)
      b2 == BCopy(b1, p1, res.pc, res.dist)
  IN [b |-> b2, x |-> p1 + res.pc, oob |-> ~Fits(res.x, Len(res.pl)) \/ ~Fits(p1, res.pc)]

\* the literal values of entry e decoded after `expect`
LitVals(e) == LET s == Lits(expect, e.nl + (IF e.last = "lit" THEN 1 ELSE 0)) IN SubSeq(s, Len(expect) + 1, Len(s))

\* One entry of a decode call.  A call starts (incall = "no") when everything produced has been
\* delivered: the window slides if needed and the loop is chosen - the vector loop if more than
\* Slop bytes are free.  Inside a call the vector loop tests its limit before every lookup and
\* then writes the entry in full; when its input runs low it hands over to the portable loop at
\* the same position.  A call ends when the window is full, when the input at hand is used up
\* (chosen freely here), or - rolled back - when it ends inside a copy.
Decode(e, vector, short, goOn) ==
  /\ ~oob /\ n < MaxEntries
  /\ (incall = "no" => r = w)
  /\ Valid(e) /\ e = Canon(e)
  /\ (pend # <<>> => e = pend[1])            \* a rolled-back entry is decoded again
  /\ LET slid == incall = "no" /\ w >= L
         b0 == IF slid THEN Slide(buf, w) ELSE buf
         x0 == IF slid THEN H ELSE w
         r0 == IF incall = "no" THEN x0 ELSE r
         useVec == /\ Slop > 0 /\ vector
                   /\ \/ incall = "no" /\ L - x0 > Slop
                      \/ incall = "vec" /\ x0 <= L - Slop
         loopName == IF useVec THEN "vec" ELSE "port"
     IN /\ (incall = "port" => ~vector)       \* the portable loop does not go back to the vector loop within a call
        /\ IF short /\ e.last = "copy" /\ pend = <<>> /\ ~useVec
             THEN \* the input ends inside the copy's distance: everything the entry did is undone
                  LET res == Portable(b0, x0, e, LitVals(e))
                      keep == DevKeepParkedOnRollback /\ Len(res.pl) > 0
                      fl == Flush([res EXCEPT !.x = x0, !.pc = 0, !.pl = IF keep THEN res.pl ELSE <<>>])
                  IN /\ buf' = fl.b /\ w' = fl.x /\ r' = r0 /\ oob' = (fl.oob \/ res.bad)
                     /\ pend' = <<e>> /\ full' = FALSE /\ incall' = "no" /\ UNCHANGED <<expect, n>>
           ELSE IF useVec
             THEN LET lv == LitVals(e)
                      b1 == Store(b0, x0, lv)
                      x1 == x0 + Len(lv)
                      b2 == IF e.last = "copy" THEN BCopy(b1, x1, e.len, e.dist) ELSE b1
                      x2 == IF e.last = "copy" THEN x1 + e.len ELSE x1
                  IN /\ buf' = b2 /\ w' = x2 /\ r' = r0 /\ oob' = ~Fits(x0, x2 - x0)
                     /\ expect' = Means(expect, e) /\ n' = n + 1 /\ pend' = <<>> /\ full' = FALSE
                     /\ incall' = IF goOn THEN "vec" ELSE "no"
           ELSE LET res == Portable(b0, x0, e, LitVals(e))
                    fl == Flush(res)
                IN /\ buf' = fl.b /\ w' = fl.x /\ r' = r0 /\ oob' = (fl.oob \/ res.bad)
                   /\ expect' = Means(expect, e) /\ n' = n + 1 /\ pend' = <<>> /\ full' = (res.stop = "full")
                   /\ incall' = IF res.stop = "ok" /\ goOn THEN "port" ELSE "no"
  /\ UNCHANGED delivered

\* Read: the caller takes everything between readPos and writePos
Deliver ==
  /\ ~oob /\ r < w /\ incall = "no"
  /\ delivered' = delivered \o [i \in 1..(w - r) |-> buf[r + i - 1]]
  /\ r' = w
  /\ UNCHANGED <<buf, w, expect, n, full, oob, pend, incall>>

Next == Deliver \/ \E e \in Entries(0) : \E v, s, g \in BOOLEAN : Decode(e, v, s, g)
Spec == Init /\ [][Next]_vars

-----------------------------------------------------------------------------
\* what the caller has been given is a prefix of what the tokens mean, value by value
IsPrefix(a, b) == Len(a) <= Len(b) /\ \A i \in 1..Len(a) : a[i] = b[i]
C02_SameBytes == IsPrefix(delivered, expect)
\* ... and nothing is lost: once everything is delivered and no entry is pending, it is all there
C02_Complete == (r = w /\ pend = <<>> /\ incall = "no") => delivered = expect
\* no write or slice outside the buffer, and the portable loop is never entered beyond the window
C03_NoPanic == ~oob
TypeOK == r <= w
=============================================================================
