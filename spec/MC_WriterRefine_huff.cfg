SPECIFICATION RSpec
CONSTANTS
  Variant = "huff"
  Cap = 6
  W = 2
  TokMax = 3
  Keep = 1
  Sizes = {0, 1, 5, 7}
  MaxOps = 4
  FailAts = {0, 1, 2, 3}
  DevResetKeepsTokens = FALSE
  DevErrNotStored = FALSE
  DevNoClosedState = FALSE
  DevHuffPadBeforeSync = FALSE
  DevHuffEmptyNoEOB = FALSE
  DevHuffCloseDropsDst = FALSE
INVARIANTS Refines
CHECK_DEADLOCK FALSE
