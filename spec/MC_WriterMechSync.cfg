SPECIFICATION SpecS
CONSTANTS
  Variant = "dyn"
  Cap = 6
  W = 2
  TokMax = 3
  Keep = 1
  Sizes = {0, 1, 3, 5}
  MaxOps = 4
  FailAts = {0, 2}
  DevResetKeepsTokens = FALSE
  DevErrNotStored = FALSE
  DevNoClosedState = FALSE
  DevHuffPadBeforeSync = FALSE
  DevHuffEmptyNoEOB = FALSE
  DevHuffCloseDropsDst = FALSE
  DevFlushSkipsSameEnd = FALSE
INVARIANTS C10_FlushPoint C01_RoundTrip C16_NoGrowth C16_NoPanic C14_Sticky C14_Reported SyncEndInBuffer
CHECK_DEADLOCK FALSE
