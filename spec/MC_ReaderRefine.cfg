SPECIFICATION RSpec
CONSTANTS
  Streams <- MCStreams
  Trailing = 3
  BufSize = 16
  Chunks = {1, 3, 16}
  ReadSizes = {1, 4}
  Afters = {"eof", "block", "error"}
  Direct = TRUE
  DevPeekWholeBuffer = FALSE
  DevErrorBeforeData = FALSE
  DevPeekAtStreamEnd = FALSE
  MaxResets = 1
  DevResetKeepsWindow = FALSE
INVARIANTS Refines
CHECK_DEADLOCK FALSE
