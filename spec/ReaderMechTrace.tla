------------------------------ MODULE ReaderMechTrace ------------------------------
(***************************************************************************)
(* Mechanism-level trace validation of the flate Reader's input handling   *)
(* (compress/flate/reader.go, step): hook events of the real code against  *)
(* the rules ReaderMech models in the small.  A mismatch is MODEL-DRIFT    *)
(* (not a verdict, DESIGN R2).  Events (field m names the hook):           *)
(*   wait  a = whole bytes still in the bit buffer, b = bytes buffered in  *)
(*         the bufio.Reader, c = 1 if the end of the stream has been       *)
(*         decoded: the Reader is about to wait for the source             *)
(*   peek  a = bytes in the bit buffer, b = bytes taken over as input,     *)
(*         c = 1 if the source reported something other than "buffer full" *)
(*   dec   a = why decoding stopped (0 block/stream boundary, 1 end of     *)
(*         input, 2 output window full, 3 defect), b = input bytes         *)
(*         consumed, c = output bytes produced, d = 1 at the end of stream *)
(*   disc  a = bytes given back to the bufio.Reader as consumed, b = peek  *)
(*         size, c = input bytes left, d = whole bytes in the bit buffer   *)
(*   fin   io.EOF without touching the source                              *)
(*   reset                                                                 *)
(* and of its output window (decomperss; the rules WindowMech models):     *)
(*   const a = history size, b = bytes behind the window (lookAhead),      *)
(*         c = output the vector loop keeps free, d = longest copy         *)
(*   hdr   a = size of the staging area for a block header that arrives    *)
(*         in pieces                                                       *)
(*   win   a = write position when the decode call started (after the      *)
(*         slide), b = write position when the loops stopped, c = literals *)
(*         parked for behind the window, d = length of the parked part of  *)
(*         a copy                                                          *)
(***************************************************************************)
EXTENDS Integers, Sequences, FiniteSets, TLC, Json

VARIABLES l, drift,
          held,      \* the Reader holds a peeked input slice
          lastStop,  \* why the last decoding step stopped (-1: none yet)
          ended,     \* the end of the stream has been decoded
          wpos,      \* write position after the last decode call (-1: unknown)
          k          \* the implementation's constants: [h, slack, slop, copy]
mvars == <<held, lastStop, ended, wpos, k>>
MaxHeaderBytes == 286   \* 17 + 19*3 + 316*7 bits

Trace == ndJsonDeserialize("trace.ndjson")
Chk(name, cond) == IF cond THEN {} ELSE {name}
Note(fs) == IF fs = {} THEN drift ELSE Append(drift, [l |-> l, c |-> fs])

TInit == /\ l = 1 /\ drift = <<>> /\ held = FALSE /\ lastStop = -1 /\ ended = FALSE /\ wpos = -1
         /\ k = [h |-> 32768, slack |-> 288, slop |-> 274, copy |-> 258]

RMech(e) ==
  CASE e.m = "wait" ->
         /\ drift' = Note(   Chk("wait_only_without_input", ~held)
                        \cup Chk("no_wait_after_full_output_window", lastStop # 2)
                        \cup Chk("no_wait_at_end_of_stream", e.c = 0 /\ ~ended)
                        \cup Chk("wait_for_one_more_byte_than_loaded", e.a <= 8))
         /\ UNCHANGED mvars
    [] e.m = "peek" ->
         /\ drift' = Note(   Chk("peek_only_without_input", ~held)
                        \cup Chk("peek_includes_loaded_bytes", e.b >= e.a \/ e.c = 1))
         /\ held' = TRUE /\ UNCHANGED <<lastStop, ended, wpos, k>>
    [] e.m = "dec" ->
         /\ drift' = Note(   Chk("decode_needs_input_slice", held)
                        \cup Chk("decode_counts", e.b >= 0 /\ e.c >= 0 /\ e.c <= 65536 + 288))
         /\ lastStop' = e.a /\ ended' = (e.d = 1) /\ UNCHANGED <<held, wpos, k>>
    [] e.m = "disc" ->
         \* what is given back is exactly what was taken over minus what is still unread
         \* (input left plus whole bytes waiting in the bit buffer)
         /\ drift' = Note(   Chk("discard_arithmetic", e.a = e.b - e.c - e.d)
                        \cup Chk("discard_within_peek", e.a <= e.b)
                        \cup Chk("discard_when_input_used_up_or_stream_over", e.c = 0 \/ ended \/ lastStop \in {1, 3}))
         /\ held' = FALSE /\ UNCHANGED <<lastStop, ended, wpos, k>>
    [] e.m = "fin" ->
         /\ drift' = Note(Chk("fin_only_at_end_of_stream", ended /\ ~held))
         /\ UNCHANGED mvars
    [] e.m = "reset" ->
         /\ held' = FALSE /\ lastStop' = -1 /\ ended' = FALSE /\ wpos' = 0 /\ UNCHANGED <<drift, k>>
    \* what WindowMech needs of the constants: two literals and a longest copy fit behind the
    \* window, and the vector loop, which tests its limit only before a lookup, cannot leave it
    [] e.m = "const" ->
         /\ drift' = Note(   Chk("slack_holds_two_literals_and_a_longest_copy", e.b >= e.d + 2)
                        \cup Chk("vector_margin_covers_a_whole_table_entry", e.c >= e.d + 2)
                        \cup Chk("longest_copy_is_258", e.d = 258))
         /\ k' = [h |-> e.a, slack |-> e.b, slop |-> e.c, copy |-> e.d] /\ UNCHANGED <<held, lastStop, ended, wpos>>
    [] e.m = "hdr" ->
         /\ drift' = Note(Chk("header_staging_holds_the_longest_header", e.a >= MaxHeaderBytes))
         /\ UNCHANGED mvars
    [] e.m = "win" ->
         /\ drift' = Note(   Chk("call_starts_where_the_last_ended_or_slid", wpos = -1 \/ e.a = (IF wpos >= 2 * k.h THEN k.h ELSE wpos))
                        \cup Chk("loops_stay_inside_the_window", e.b <= 2 * k.h /\ e.b >= e.a)
                        \cup Chk("parked_only_at_a_full_window", (e.c + e.d > 0) => e.b = 2 * k.h)
                        \cup Chk("parked_fits_behind_the_window", e.c >= 0 /\ e.c <= 3 /\ e.d >= 0 /\ e.d <= k.copy /\ (e.d > 0 => e.c <= 2) /\ e.c + e.d <= k.slack))
         /\ wpos' = e.b + e.c + e.d /\ UNCHANGED <<held, lastStop, ended, k>>

TNext ==
  /\ l <= Len(Trace) /\ l' = l + 1
  /\ LET e == Trace[l] IN
     IF e.ev = "RMech" THEN RMech(e)
     ELSE IF e.ev = "Begin" /\ e.ctor = "new" THEN held' = FALSE /\ lastStop' = -1 /\ ended' = FALSE /\ wpos' = -1 /\ UNCHANGED <<drift, k>>
     ELSE UNCHANGED <<mvars, drift>>

TSpec == TInit /\ [][TNext]_<<l, drift, mvars>>
Report == (l = Len(Trace) + 1) => PrintT("DONE " \o ToString(Len(Trace)) \o " " \o ToJson(drift))
=============================================================================
