SPECIFICATION TSpec
INVARIANTS Report
CHECK_DEADLOCK FALSE
