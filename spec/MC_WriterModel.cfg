SPECIFICATION MSpec
CONSTANTS
  StdQuirks = FALSE
  Kinds = {"flate", "gzip", "zlib", "gzip-unencodable-header"}
  Sizes = {0, 2}
  MaxLen = 5
  MaxResets = 2
  Faults = TRUE
  OpSet = {"Write", "Flush", "Close", "Reset"}
VIEW View
INVARIANTS TypeOK Answerable C01_RoundTrip C10_FlushPoint C14_Reported C16_CloseIdem C16_FinalStays C16_HeaderError
PROPERTIES C01_Monotone C16_Absorbing C12_ResetFresh
CHECK_DEADLOCK FALSE
