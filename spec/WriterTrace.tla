------------------------------ MODULE WriterTrace ------------------------------
(***************************************************************************)
(* Trace validation for WriterContract: every line of trace.ndjson is one  *)
(* event recorded from the real code (or from the standard library, with   *)
(* StdQuirks = TRUE).  The contract's Step is driven by the event and the  *)
(* clauses it violates are collected, so one run reports every violating   *)
(* event of every trace in the file.  A file holds many traces; each       *)
(* starts with a Begin event.                                              *)
(***************************************************************************)
EXTENDS WriterContract, Json

VARIABLES l, viol, noted   \* noted: clauses already reported for the current trace
tvars == <<cvars, l, viol, noted>>

Trace == ndJsonDeserialize("trace.ndjson")

\* a clause is reported once per trace (the first event that violates it)
New(fs)  == fs \ noted
\* (at most MaxViol violating events are kept: a change that breaks every case must not make validation quadratic)
MaxViol == 3000
Note(fs) == IF New(fs) = {} \/ Len(viol) >= MaxViol THEN viol ELSE Append(viol, [l |-> l, c |-> New(fs)])
Rec(fs)      == viol' = Note(fs) /\ noted' = noted \cup fs
RecBegin(fs) == viol' = (IF fs = {} \/ Len(viol) >= MaxViol THEN viol ELSE Append(viol, [l |-> l, c |-> fs])) /\ noted' = fs

TInit == l = 1 /\ viol = <<>> /\ noted = {} /\ CInit

TNext ==
  /\ l <= Len(Trace)
  /\ l' = l + 1
  /\ LET e == Trace[l] IN
     CASE e.ev = "Begin" -> Begin(e) /\ RecBegin({})
       [] e.ev = "Reset" -> Reset(e) /\ UNCHANGED <<viol, noted>>
       [] e.ev \in {"Write", "Flush", "Close"} -> Call(e) /\ Rec(Failed(e))
       [] e.ev = "Soak"  -> Soak(e) /\ Rec(SoakFailed(e))
       [] e.ev = "Bulk"  -> UNCHANGED cvars /\ Rec(BulkFailed(e))
       [] e.ev = "Cmp"   -> UNCHANGED cvars /\ Rec(CmpFailed(e))
       [] e.ev = "Ctor"  -> UNCHANGED cvars /\ Rec(CtorFailed(e))
       \* mechanism events of the compressor (hooks): judged by DynMechTrace, not by the contract
       [] e.ev = "Mech"  -> UNCHANGED <<cvars, viol, noted>>
       \* the worker process died or hung inside this case (recorded by the driver)
       [] e.ev \in {"Crash", "Hang"} -> UNCHANGED cvars /\ RecBegin({"C16.nopanic", "C14.nopanic_on_failure", "C01.nocrash"} \cup {e.clauses[i] : i \in DOMAIN e.clauses})

TSpec == TInit /\ [][TNext]_tvars

\* printed exactly once, in the single state that has consumed the whole file
Report == (l = Len(Trace) + 1) => PrintT("DONE " \o ToString(Len(Trace)) \o " " \o ToJson(viol))
=============================================================================
