------------------------------ MODULE WriterTrace ------------------------------
(***************************************************************************)
(* Trace validation for WriterContract: every line of trace.ndjson is one  *)
(* event recorded from the real code (or from the standard library, with   *)
(* StdQuirks = TRUE).  The contract's Step is driven by the event and the  *)
(* clauses it violates are collected, so one run reports every violating   *)
(* event of every trace in the file.  A file holds many traces; each       *)
(* starts with a Begin event.                                              *)
(***************************************************************************)
EXTENDS WriterContract, Json

VARIABLES l, viol
tvars == <<cvars, l, viol>>

Trace == ndJsonDeserialize("trace.ndjson")

Note(fs) == IF fs = {} THEN viol ELSE Append(viol, [l |-> l, c |-> fs])

TInit == l = 1 /\ viol = <<>> /\ CInit

TNext ==
  /\ l <= Len(Trace)
  /\ l' = l + 1
  /\ LET e == Trace[l] IN
     CASE e.ev = "Begin" -> Begin(e) /\ UNCHANGED viol
       [] e.ev = "Reset" -> Reset(e) /\ UNCHANGED viol
       [] e.ev \in {"Write", "Flush", "Close"} -> Call(e) /\ viol' = Note(Failed(e))
       [] e.ev = "Cmp"   -> UNCHANGED cvars /\ viol' = Note(CmpFailed(e))
       [] e.ev = "Ctor"  -> UNCHANGED cvars /\ viol' = Note(CtorFailed(e))
       \* the worker process died or hung inside this case (recorded by the driver)
       [] e.ev \in {"Crash", "Hang"} -> UNCHANGED cvars /\ viol' = Note({"C16.nopanic", "C14.nopanic_on_failure", "C01.nocrash"})

TSpec == TInit /\ [][TNext]_tvars

\* printed exactly once, in the single state that has consumed the whole file
Report == (l = Len(Trace) + 1) => PrintT("DONE " \o ToString(Len(Trace)) \o " " \o ToJson(viol))
=============================================================================
