---------------------------- MODULE WriterContract ----------------------------
(***************************************************************************)
(* Observable contract of a DEFLATE-family Writer (flate | gzip | zlib).   *)
(*                                                                         *)
(* The abstract state is what a user can know about a Writer from the      *)
(* outside: is it open / closed / broken, how many bytes were accepted,    *)
(* what the bytes handed to the destination so far decode to and how they  *)
(* end.  Nothing here mentions buffers, blocks, tokens or the number of    *)
(* destination calls (except "none after the first failure"), so any       *)
(* behaviour-preserving change of the implementation is accepted.          *)
(*                                                                         *)
(* Every API call is one action, parameterised by the event record e that  *)
(* describes what the implementation answered and what independent         *)
(* decoders make of the bytes emitted so far.  The action is split into    *)
(*   - Step(e): the (deterministic) effect on the abstract state, and      *)
(*   - Failed(e): the set of named contract clauses that e violates in     *)
(*     the current state.  A clause name starts with the id of the         *)
(*     property it belongs to.                                             *)
(* WriterTrace drives Step with recorded events and collects Failed;       *)
(* WriterModel quantifies e over small sets with Failed(e) = {} and is     *)
(* model-checked.                                                          *)
(***************************************************************************)
EXTENDS Integers, Sequences, FiniteSets, TLC

CONSTANT StdQuirks   \* TRUE only while the standard library's own traces are validated

VARIABLES
  mode,        \* "none" | "open" | "closed" | "failed"
  kind,        \* "flate" | "gzip" | "zlib" | BadHdr (a gzip Writer whose header fields cannot be encoded)
  level,       \* compression level given to the constructor
  window,      \* 4096 | 32768
  accel,       \* setting handled by fastgo's own compressors (levels -2,-1,1,2, no dictionary)
  period,      \* 1..64: the data is periodic with this period (C20); 1001..1064: periodic with period
               \* (period - 1000), the period spelled with two or three distinct byte values; 0 otherwise
  acc,         \* bytes accepted by Write since construction / Reset
  dec,         \* bytes the emitted prefix decodes to
  tail,        \* how the emitted prefix ends: "empty" | "mid" | "sync" | "final"
  flushes,     \* successful Flush calls since construction / Reset
  emitted,     \* bytes handed to the destination since construction / Reset
  downSeen,    \* the destination has returned an error
  closeFailed, \* a Close has failed (compress/flate quirk, see DESIGN R3)
  cerr         \* container-level sticky error after a failing call on a closed gzip/zlib Writer

cvars == <<mode, kind, level, window, accel, period, acc, dec, tail, flushes,
           emitted, downSeen, closeFailed, cerr>>

Chk(name, cond) == IF cond THEN {} ELSE {name}

\* A gzip Writer whose Header cannot be written (Extra longer than 65535 bytes, a NUL or a
\* code point above U+00FF in Name or Comment): compress/gzip reports that from the first call
\* that has to emit the header, and from every call after it.  Reset restores the default header.
BadHdr == "gzip-unencodable-header"

CInit ==
  /\ mode = "none" /\ kind = "flate" /\ level = 0 /\ window = 32768 /\ accel = FALSE
  /\ period = 0 /\ acc = 0 /\ dec = 0 /\ tail = "empty" /\ flushes = 0 /\ emitted = 0
  /\ downSeen = FALSE /\ closeFailed = FALSE /\ cerr = FALSE

Fresh ==
  /\ mode' = "open" /\ acc' = 0 /\ dec' = 0 /\ tail' = "empty" /\ flushes' = 0
  /\ emitted' = 0 /\ downSeen' = FALSE /\ closeFailed' = FALSE /\ cerr' = FALSE

\* A new Writer.
Begin(e) ==
  /\ Fresh
  /\ kind' = e.kind /\ level' = e.level /\ window' = e.window /\ accel' = e.accel
  /\ period' = e.period

\* Reset(dst): same setting, fresh everything else (C12).
Reset(e) ==
  /\ mode # "none"
  /\ Fresh
  /\ kind' = IF kind = BadHdr THEN "gzip" ELSE kind
  /\ UNCHANGED <<level, window, accel, period>>

-----------------------------------------------------------------------------
(* Which situation a call is made in. *)
Failing(e)    == e.down /\ ~downSeen            \* the destination fails during this call
Phase(e) ==
  IF kind = BadHdr       THEN "badHeader"
  ELSE IF Failing(e)     THEN "failing"
  ELSE IF mode = "failed" THEN "afterFail"
  ELSE IF mode = "closed" THEN "afterClose"
  ELSE "open"

\* compress/flate, gzip, zlib after a successful Close (transcribed from the
\* standard library and re-validated against it on every run, DESIGN R3).
ExpectErrClosed(e) ==
  IF cerr THEN TRUE
  ELSE CASE kind = "flate" -> e.ev # "Close"
         [] kind = "gzip"  -> e.ev = "Write"
         [] kind = "zlib"  -> (e.ev = "Write" /\ e.n > 0) \/ e.ev = "Flush"

Contentful(e) == e.ref.ok /\ e.ref.st # "corrupt"

-----------------------------------------------------------------------------
(* Contract clauses.  A clause that does not apply in the current phase is  *)
(* vacuously true.                                                          *)
Failed(e) ==
  LET ph   == Phase(e)
      accN == IF e.ev = "Write" /\ ph = "open" THEN acc + e.n ELSE acc
  IN
  \* ---- any phase ----------------------------------------------------------
     Chk("C16.nopanic", e.panic = "")
  \cup Chk("C14.nopanic_on_failure", (ph \in {"failing", "afterFail"}) => e.panic = "")
  \* ---- open, healthy destination -------------------------------------------
  \cup Chk("C16.nil_when_open", ph = "open" => e.err = "nil")
  \cup Chk("C16.write_count",   (ph = "open" /\ e.ev = "Write") => e.ret = e.n)
  \cup Chk("C01.prefix_valid",  (ph = "open" /\ e.ev = "Write") =>
             /\ Contentful(e) /\ e.ref.st = "more" /\ e.ref.len <= accN /\ e.ref.len >= dec
             /\ e.ref.tail # "final")
  \cup Chk("C19.window",        (ph = "open") => e.ref.maxd <= window)
  \cup Chk("C10.flush_decodes", (ph = "open" /\ e.ev = "Flush") =>
             /\ Contentful(e) /\ e.ref.st = "more" /\ e.ref.len = acc /\ e.ref.tail = "sync")
  \cup Chk("C10.flush_std",     (ph = "open" /\ e.ev = "Flush") =>
             /\ e.std.ok /\ e.std.st = "more" /\ e.std.len = acc)
  \cup Chk("C10.stays_valid",   (ph = "open" /\ flushes > 0 /\ e.ev \in {"Write", "Close"}) =>
             /\ Contentful(e) /\ e.ref.len >= dec
             /\ (e.ev = "Close" => e.ref.st = "done" /\ e.ref.len = acc /\ e.std.ok /\ e.std.st = "done" /\ e.std.len = acc))
  \cup Chk("C10.flush_header",  (ph = "open" /\ e.ev = "Flush" /\ kind # "flate") => e.ref.hdr)
  \cup Chk("C01.close_complete", (ph = "open" /\ e.ev = "Close") =>
             /\ Contentful(e) /\ e.ref.st = "done" /\ e.ref.len = acc /\ e.ref.tail = "final"
             /\ (kind = "flate" => e.ref.trail = 0))
  \cup Chk("C01.close_std",     (ph = "open" /\ e.ev = "Close") =>
             /\ e.std.ok /\ e.std.st = "done" /\ e.std.len = acc)
  \cup Chk("C01.close_fastgo",  (ph = "open" /\ e.ev = "Close") =>
             /\ e.fg.ok /\ e.fg.st = "done" /\ e.fg.len = acc)
  \cup Chk("C06.trailer",       (ph = "open" /\ e.ev = "Close" /\ kind # "flate") =>
             /\ e.ref.hdr /\ e.ref.trl)
  \cup Chk("C06.readback",      (ph = "open" /\ e.ev = "Close" /\ kind # "flate") =>
             /\ e.std.ok /\ e.std.st = "done" /\ e.std.len = acc /\ e.std.hdr
             /\ e.fg.ok /\ e.fg.st = "done" /\ e.fg.len = acc /\ e.fg.hdr)
  \* C18, compressor half: at whatever acceleration level the trace was recorded, Flush and Close
  \* leave what the other properties demand (the check runs the same cases at every level)
  \cup Chk("C18.compressor_output", (ph = "open" /\ e.ev \in {"Flush", "Close"}) =>
             /\ Contentful(e) /\ e.ref.len = acc /\ e.std.ok /\ e.std.len = acc
             /\ e.ref.maxd <= window
             /\ (e.ev = "Flush" => e.ref.st = "more" /\ e.ref.tail = "sync" /\ e.std.st = "more")
             /\ (e.ev = "Close" => e.ref.st = "done" /\ e.std.st = "done" /\ e.fg.ok /\ e.fg.st = "done" /\ e.fg.len = acc))
  \cup Chk("C20.expansion",     (ph = "open" /\ e.ev = "Close" /\ kind = "flate" /\ accel /\ flushes = 0) =>
             emitted + e.bytes <= acc + acc \div 32 + 256)
  \cup Chk("C20.repeats",       (ph = "open" /\ e.ev = "Close" /\ kind = "flate" /\ accel /\ flushes = 0
                                 /\ period \in 1..64 /\ acc >= 65536 /\ level \in {-1, 1, 2}) =>
             emitted + e.bytes <= acc \div 32 + 1200)
  \* the same bound for periods over two or three byte values (a clause of its own: the match finder
  \* keeps one candidate per hash, and with so few distinct four-byte strings that candidate is a
  \* near repetition inside the period, not the period itself - known finding F-C20a)
  \cup Chk("C20.repeats_low_entropy", (ph = "open" /\ e.ev = "Close" /\ kind = "flate" /\ accel /\ flushes = 0
                                 /\ period \in 1001..1064 /\ acc >= 65536 /\ level \in {-1, 1, 2}) =>
             emitted + e.bytes <= acc \div 32 + 1200)
  \* C14, converse: every call returned nil, so the destination holds a complete valid stream of all the data
  \cup Chk("C14.converse",      (ph = "open" /\ e.ev = "Close" /\ e.err = "nil") =>
             /\ Contentful(e) /\ e.ref.st = "done" /\ e.ref.len = acc /\ e.std.ok /\ e.std.st = "done" /\ e.std.len = acc)
  \* C16: the bytes emitted up to the first successful Close are a complete valid stream of the data written
  \cup Chk("C16.first_close_valid", (ph = "open" /\ e.ev = "Close" /\ e.err = "nil") =>
             /\ Contentful(e) /\ e.ref.st = "done" /\ e.ref.len = acc /\ e.std.ok /\ e.std.st = "done" /\ e.std.len = acc)
  \* ---- the destination fails during this call -------------------------------
  \cup Chk("C14.reported",      ph = "failing" => e.err = "dst")
  \cup Chk("C14.count",         (ph = "failing" /\ e.ev = "Write") => e.ret <= e.n)
  \cup Chk("C14.no_retry",      ph = "failing" => e.after = 0)
  \* ---- after a destination failure, until Reset ------------------------------
  \cup Chk("C14.sticky",        ph = "afterFail" =>
             \/ e.err # "nil"
             \/ (StdQuirks /\ closeFailed /\ kind = "flate" /\ e.ev = "Write"))
  \cup Chk("C14.untouched",     ph = "afterFail" => e.calls = 0 /\ e.bytes = 0 /\ e.after = 0)
  \* ---- a header that cannot be encoded: every call says so, as compress/gzip does ----
  \cup Chk("C16.header_error", ph = "badHeader" => (e.err # "nil" /\ (e.ev = "Write" => e.ret = 0)))
  \* ---- after a successful Close ----------------------------------------------
  \cup Chk("C16.closed_parity", ph = "afterClose" => (e.err # "nil") = ExpectErrClosed(e))
  \cup Chk("C16.closed_count",  (ph = "afterClose" /\ e.ev = "Write") => e.ret = 0)
  \cup Chk("C16.no_growth",     ph = "afterClose" =>
             /\ (tail = "final" => e.ref.st = "done" /\ e.ref.len = dec)
             /\ (kind # "zlib" => e.bytes = 0)
             /\ (kind = "zlib" => (IF e.ev = "Close" /\ ~cerr THEN e.bytes \in {0, 4} ELSE e.bytes = 0)))

-----------------------------------------------------------------------------
(* Effect of a Write / Flush / Close call on the abstract state. *)
Call(e) ==
  LET ph == Phase(e) IN
  /\ mode \in {"open", "closed", "failed"}
  /\ mode' = CASE ph = "badHeader" -> mode
               [] ph = "failing" -> "failed"
               [] ph = "open" /\ e.ev = "Close" /\ e.err = "nil" -> "closed"
               [] OTHER -> mode
  /\ acc' = IF e.ev = "Write" /\ ph = "open" THEN acc + e.n
            ELSE IF e.ev = "Write" /\ ph = "failing" /\ mode = "open" THEN acc + e.ret
            ELSE acc
  /\ dec'  = IF ph = "open" /\ Contentful(e) THEN e.ref.len ELSE dec
  /\ tail' = IF ph = "open" /\ Contentful(e) THEN e.ref.tail ELSE tail
  /\ flushes' = IF ph = "open" /\ e.ev = "Flush" /\ e.err = "nil" THEN flushes + 1 ELSE flushes
  /\ emitted' = emitted + e.bytes
  /\ downSeen' = (downSeen \/ e.down)
  /\ closeFailed' = (closeFailed \/ (ph = "failing" /\ e.ev = "Close"))
  /\ cerr' = (cerr \/ (ph = "afterClose" /\ kind # "flate" /\ ExpectErrClosed(e)))
  /\ UNCHANGED <<kind, level, window, accel, period>>

-----------------------------------------------------------------------------
(* Pair comparisons (C09: two partitions of the same data with the same     *)
(* Flush positions; C12: a Writer after Reset against a fresh Writer).      *)
CmpFailed(e) ==
     Chk("C09.same_bytes", e.what = "C09" => e.equal)
  \cup Chk("C12.same_bytes", e.what \in {"C12", "soak"} => e.equal)
  \* after any number of streams that died with their destination, Reset gives a Writer as good as new
  \cup Chk("C14.reusable_after_failures", e.what = "soak" => e.equal)

(* A pooled Writer's life before the history proper: e.n streams, each ended by a   *)
(* failing destination and followed by Reset.  e.ret counts the streams whose       *)
(* failure was not reported or after which the destination was called again.        *)
Soak(e) == Reset(e)
SoakFailed(e) ==
     Chk("C14.nopanic_on_failure", e.panic = "")
  \cup Chk("C16.nopanic", e.panic = "")
  \cup Chk("C12.reset_nopanic", e.panic = "")
  \cup Chk("C14.reported", e.ret = 0)

(* Very many one-shot streams (Write, Close) at the encoders' output-piece   *)
(* boundaries, judged in the worker against compress/flate and summarised:   *)
(* e.n streams, e.ret of them panicked, were refused or did not round-trip.  *)
BulkFailed(e) ==
     Chk("C16.nopanic", e.panic = "")
  \cup Chk("C01.nocrash", e.panic = "")
  \cup Chk("C01.close_complete", e.ret = 0)
  \cup Chk("C01.close_std", e.ret = 0)
  \cup Chk("C16.first_close_valid", e.ret = 0)
  \cup Chk("C06.trailer", kind # "flate" => e.ret = 0)
  \cup Chk("C06.readback", kind # "flate" => e.ret = 0)

(* Constructors that mirror the standard library accept and reject the same *)
(* levels.                                                                  *)
CtorFailed(e) ==
     Chk("C16.ctor_parity", (e.err = "nil") = (e.stderr = "nil"))
  \cup Chk("C16.ctor_nopanic", e.panic = "")
=============================================================================
