SPECIFICATION Spec
CONSTANTS
  N = 14
  M = 8
  W = 4
  L = 5
  Keep = 4
  TableSize = 2
  MinMatch = 2
  MaxLen = 3
  FirstCmp = 2
  TokMax = 3
  MaxFlush = 1
  WindowTest = "lt"
INVARIANTS C19_InWindow C01_Verified C01_Coverage MemSafe LenBounds AllConsumed
CHECK_DEADLOCK FALSE
