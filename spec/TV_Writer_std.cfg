SPECIFICATION TSpec
CONSTANTS
  StdQuirks = TRUE
INVARIANTS Report
CHECK_DEADLOCK FALSE
