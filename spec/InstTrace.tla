------------------------------ MODULE InstTrace ------------------------------
(* Trace validation for C17: every instance of a concurrent run must end    *)
(* exactly as in its solo run, and the race detector must stay silent.      *)
EXTENDS Integers, Sequences, FiniteSets, TLC, Json

VARIABLES l, viol, cur
tvars == <<l, viol, cur>>
Trace == ndJsonDeserialize("trace.ndjson")
Chk(name, cond) == IF cond THEN {} ELSE {name}
Note(fs) == IF fs = {} THEN viol ELSE Append(viol, [l |-> l, c |-> fs])

InstFailed(e) ==
     Chk("C17.same_bytes_as_solo", e.equal)
  \cup Chk("C17.same_errors_as_solo", e.errsame)
  \cup Chk("C17.nopanic", e.panic = "")

TInit == l = 1 /\ viol = <<>> /\ cur = ""
TNext ==
  /\ l <= Len(Trace) /\ l' = l + 1
  /\ LET e == Trace[l] IN
     CASE e.ev = "Begin" -> cur' = e.case /\ UNCHANGED viol
       [] e.ev = "Inst"  -> viol' = Note(InstFailed(e)) /\ UNCHANGED cur
       [] e.ev = "End"   -> UNCHANGED <<viol, cur>>
       [] e.ev = "Race"  -> viol' = Note({"C17.no_data_race"}) /\ UNCHANGED cur
       [] e.ev \in {"Crash", "Hang"} -> viol' = Note({"C17.nopanic"}) /\ UNCHANGED cur
TSpec == TInit /\ [][TNext]_tvars
Report == (l = Len(Trace) + 1) => PrintT("DONE " \o ToString(Len(Trace)) \o " " \o ToJson(viol))
=============================================================================
