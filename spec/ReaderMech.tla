------------------------------ MODULE ReaderMech ------------------------------
(* Implementation-shaped model of compress/flate.decompressor: source -> bufio   *)
(* -> Peek -> 64-bit bit buffer -> tokens -> output window -> Read.  Bit-accurate *)
(* positions, data abstracted to token bit-lengths and output byte counts.       *)
EXTENDS Naturals, Sequences, FiniteSets, TLC

CONSTANTS Streams,        \* set of token sequences; token = [b |-> bits, o |-> out bytes, k |-> kind]
                          \* kinds: "sym" | "sync" (3 bits, align, 32 bits, o = 0) | "end" (last token)
          Trailing,       \* bytes after the end of the stream in the source
          BufSize,        \* bufio.Reader size (bytes)
          Chunks,         \* sizes a source read may return
          ReadSizes,      \* caller's buffer sizes
          Afters,         \* what the source does after the released prefix: "eof" | "block" | "error"
          Direct,         \* the Reader peeks the caller's own bufio.Reader (Reset with *bufio.Reader)
          \* deviations of the pinned code (TRUE = as read)
          DevPeekWholeBuffer, DevErrorBeforeData,
          MaxResets,            \* Reset(src) calls per behaviour
          DevResetKeepsWindow,  \* Reset keeps the window cursors: undelivered output of the old stream survives
          DevPeekAtStreamEnd   \* at the end of the stream, with all output delivered, peek the source again before io.EOF

VARIABLES S, released, after,            \* environment: stream, gate, behaviour after the gate
          srcPos, bR, held, inPos, inEnd, cbits, tk, prod, deliv, phase, err, eof,
          pc, want, waiting, srcErr,
          resets,   \* Reset calls so far
          stale     \* undelivered output bytes that belong to a stream abandoned by Reset

vars == <<S, released, after, srcPos, bR, held, inPos, inEnd, cbits, tk, prod, deliv,
          phase, err, eof, pc, want, waiting, srcErr, resets, stale>>

-----------------------------------------------------------------------------
(* stream geometry *)
RECURSIVE EndBit(_, _, _)
\* absolute bit position after the first n tokens of s, starting at bit p
EndBit(s, n, p) ==
  IF n = 0 THEN p
  ELSE LET t == s[Len(s) - n + 1]      \* process left to right
       IN EndBit(s, n - 1,
                 IF t.k = "sync" THEN (((p + 3 + 7) \div 8) * 8) + 32 ELSE p + t.b)
BitAfter(s, i)  == EndBit(SubSeq(s, 1, i), i, 0)          \* bit position after token i
ByteAfter(s, i) == (BitAfter(s, i) + 7) \div 8
TotalBytes(s)   == ByteAfter(s, Len(s))
RECURSIVE OutUpTo(_, _)
OutUpTo(s, i)   == IF i = 0 THEN 0 ELSE OutUpTo(s, i - 1) + s[i].o
SyncEnds(s)     == { ByteAfter(s, i) : i \in { j \in 1..Len(s) : s[j].k \in {"sync", "end"} } }
\* output decodable once the first p bytes are known (p in SyncEnds)
DecAt(s, p)     == LET I == { i \in 1..Len(s) : ByteAfter(s, i) <= p } IN
                   IF I = {} THEN 0 ELSE OutUpTo(s, CHOOSE i \in I : \A j \in I : j <= i)
SrcLen(s)       == TotalBytes(s) + Trailing

bitsLen == inPos * 8 - cbits

Init ==
  /\ S \in Streams
  /\ released \in SyncEnds(S) \cup {SrcLen(S)}
  /\ after \in Afters
  /\ srcPos = 0 /\ bR = 0 /\ held = FALSE /\ inPos = 0 /\ inEnd = 0 /\ cbits = 0 /\ tk = 1
  /\ prod = 0 /\ deliv = 0 /\ phase = "run" /\ err = "nil" /\ eof = FALSE
  /\ pc = "idle" /\ want = 0 /\ waiting = FALSE /\ srcErr = "nil"
  /\ resets = 0 /\ stale = 0

-----------------------------------------------------------------------------
(* caller: Read(k) *)
ReadCall(k) ==
  /\ pc = "idle"
  /\ IF prod > deliv
       THEN /\ deliv' = IF prod - deliv < k THEN prod ELSE deliv + k
            /\ stale' = IF stale > deliv' - deliv THEN stale - (deliv' - deliv) ELSE 0
            /\ UNCHANGED <<pc, want>>
     ELSE IF err # "nil"
       THEN UNCHANGED <<deliv, pc, want, stale>>             \* sticky error, n = 0
       ELSE /\ (phase = "streamend" /\ ~held => DevPeekAtStreamEnd)    \* otherwise Finish ends the stream without the source
            /\ pc' = IF phase = "finish" THEN "idle" ELSE IF held THEN "decode" ELSE "peek"
            /\ want' = IF DevPeekWholeBuffer THEN BufSize
                       ELSE bitsLen \div 8 + 1               \* one byte beyond what is loaded
            /\ UNCHANGED <<deliv, stale>>
  /\ UNCHANGED <<S, released, after, srcPos, bR, held, inPos, inEnd, cbits, tk, prod,
                 phase, err, eof, waiting, srcErr, resets>>

(* bufio.Peek(want): fill from the source until want bytes are buffered *)
Avail == srcPos - bR
PeekFill ==
  /\ pc = "peek" /\ Avail < want /\ srcErr = "nil" /\ ~eof
  /\ IF srcPos < released
       THEN \E c \in Chunks :
              /\ srcPos' = IF srcPos + c > released THEN released ELSE srcPos + c
              /\ UNCHANGED <<waiting, srcErr, eof>>
     ELSE CASE after = "block" /\ srcPos < SrcLen(S) -> waiting' = TRUE /\ UNCHANGED <<srcPos, srcErr, eof>>
            [] after = "error" /\ srcPos < SrcLen(S) -> srcErr' = "injected" /\ UNCHANGED <<srcPos, waiting, eof>>
            [] OTHER -> eof' = TRUE /\ UNCHANGED <<srcPos, waiting, srcErr>>     \* true end of data
  /\ UNCHANGED <<S, released, after, bR, held, inPos, inEnd, cbits, tk, prod, deliv, phase, err, pc, want, resets, stale>>

PeekDone ==
  /\ pc = "peek" /\ ~waiting /\ (Avail >= want \/ srcErr # "nil" \/ eof)
  /\ IF srcErr # "nil" /\ DevErrorBeforeData
       THEN /\ err' = srcErr /\ pc' = "idle" /\ UNCHANGED <<held, inEnd>>   \* error wins over buffered data
       ELSE /\ held' = TRUE /\ inEnd' = srcPos /\ pc' = "decode" /\ UNCHANGED err
  /\ UNCHANGED <<S, released, after, srcPos, bR, inPos, cbits, tk, prod, deliv, phase, eof, want, waiting, srcErr, resets, stale>>

(* decomperss(): load bytes, decode every token that is completely available *)
RECURSIVE Run(_, _, _, _)
\* returns [ip, cb, tk, prod, end]  end \in {"more","endinput","streamend"}
Run(ip, cb, t, pr) ==
  LET loadable == IF inEnd - ip < (64 - (ip*8 - cb)) \div 8 THEN inEnd - ip ELSE (64 - (ip*8 - cb)) \div 8
      ip1      == IF ip*8 - cb < 57 THEN ip + loadable ELSE ip
      bl       == ip1*8 - cb
  IN IF t > Len(S) THEN [ip |-> ip, cb |-> cb, tk |-> t, prod |-> pr, end |-> "streamend"]
     ELSE LET tok == S[t]
              need == IF tok.k = "sync" THEN (((cb + 3 + 7) \div 8) * 8) + 32 - cb ELSE tok.b
          IN IF bl >= need
               THEN Run(ip1, cb + need, t + 1, pr + tok.o)
               ELSE IF ip1 < inEnd THEN Run(ip1, cb, t, pr)          \* keep loading
                    ELSE [ip |-> ip1, cb |-> cb, tk |-> t, prod |-> pr, end |-> "endinput"]

Decode ==
  /\ pc = "decode"
  /\ LET r == Run(inPos, cbits, tk, prod)
         bl == r.ip * 8 - r.cb
     IN /\ inPos' = r.ip /\ cbits' = r.cb /\ tk' = r.tk /\ prod' = r.prod
        /\ IF r.end = "endinput" /\ (eof \/ srcErr # "nil")
             THEN \* nothing more will ever come
                  /\ err' = IF srcErr # "nil" THEN srcErr ELSE "uxeof"
                  /\ bR' = r.ip - bl \div 8 /\ held' = FALSE /\ UNCHANGED phase
           ELSE /\ phase' = IF r.end = "streamend" THEN (IF r.prod = deliv THEN "finish" ELSE "streamend") ELSE phase
                /\ err' = IF r.end = "streamend" /\ r.prod = deliv THEN "eof" ELSE err
                /\ IF r.ip = inEnd \/ (r.end = "streamend" /\ r.prod = deliv)
                     THEN bR' = r.ip - bl \div 8 /\ held' = FALSE          \* Discard
                     ELSE UNCHANGED <<bR, held>>
        /\ pc' = "idle"
  /\ UNCHANGED <<S, released, after, srcPos, inEnd, deliv, eof, want, waiting, srcErr, resets, stale>>

\* the caller re-enters step() after the output has been drained at stream end
Finish ==
  /\ pc = "idle" /\ phase = "streamend" /\ prod = deliv /\ err = "nil"
  /\ phase' = "finish" /\ err' = "eof"
  /\ bR' = inPos - bitsLen \div 8 /\ held' = FALSE
  /\ UNCHANGED <<S, released, after, srcPos, inPos, inEnd, cbits, tk, prod, deliv, eof, pc, want, waiting, srcErr, resets, stale>>

\* Reset(src): the Reader is pointed at a new source; everything else starts afresh
ResetMech ==
  /\ pc = "idle" /\ resets < MaxResets
  /\ resets' = resets + 1
  /\ S' \in Streams
  /\ released' \in SyncEnds(S') \cup {SrcLen(S')}
  /\ after' \in Afters
  /\ srcPos' = 0 /\ bR' = 0 /\ held' = FALSE /\ inPos' = 0 /\ inEnd' = 0 /\ cbits' = 0 /\ tk' = 1
  /\ IF DevResetKeepsWindow
       THEN UNCHANGED <<prod, deliv>> /\ stale' = prod - deliv     \* undelivered output of the old stream stays deliverable
       ELSE prod' = 0 /\ deliv' = 0 /\ stale' = 0
  /\ phase' = "run" /\ err' = "nil" /\ eof' = FALSE /\ want' = 0 /\ waiting' = FALSE /\ srcErr' = "nil"
  /\ UNCHANGED pc

Next == (\E k \in ReadSizes : ReadCall(k)) \/ PeekFill \/ PeekDone \/ Decode \/ Finish \/ ResetMech
Spec == Init /\ [][Next]_vars

-----------------------------------------------------------------------------
EndByte   == TotalBytes(S)
CallerPos == IF Direct THEN bR ELSE srcPos       \* a re-wrapped source has lost everything pulled

C05_ExactEnd   == err = "eof" => CallerPos = EndByte
C02_AllOutput  == err = "eof" => deliv = OutUpTo(S, Len(S))
C11_NoWait     == waiting /\ released \in SyncEnds(S) => deliv = DecAt(S, released)
C11_DataFirst  == err = "injected" /\ released \in SyncEnds(S) => deliv = DecAt(S, released)
C15_SameError  == (after = "error" /\ err \notin {"nil"}) => (err = "injected" \/ (err = "eof" /\ released >= EndByte))
C03_PrefixOnly == deliv <= prod /\ prod <= OutUpTo(S, Len(S))
C13_NoLeak     == stale = 0                      \* nothing of an abandoned stream is ever deliverable
TypeOK         == bitsLen \in 0..64 /\ bR <= inPos /\ inPos <= srcPos /\ srcPos <= SrcLen(S)
=============================================================================
