SPECIFICATION Spec
CONSTANTS
  Streams <- MCStreams
  Trailing = 3
  BufSize = 16
  Chunks = {1, 3, 16}
  ReadSizes = {1, 4}
  Afters = {"eof", "block", "error"}
  Direct = TRUE
  DevPeekWholeBuffer = FALSE
  DevErrorBeforeData = FALSE
  DevPeekAtStreamEnd = FALSE
  MaxResets = 1
  DevResetKeepsWindow = FALSE
INVARIANTS TypeOK C05_ExactEnd C02_AllOutput C11_NoWait C11_DataFirst C15_SameError C03_PrefixOnly C13_NoLeak
CHECK_DEADLOCK FALSE
