SPECIFICATION Spec
CONSTANTS
  Variant = "gzip"
  Sizes = {0, 3}
  MaxOps = 6
  FailAts = {0, 1, 2, 3, 4}
  DevHdrErrNotStored = FALSE
  DevCloseTwiceTrailer = FALSE
INVARIANTS Refines TypeOK
CHECK_DEADLOCK FALSE
