SPECIFICATION Spec
CONSTANTS
  MaxMembers = 3
  Payloads = {0, 1, 2}
  MaxTrail = 2
  SizeMod = 2
  DevSizeNoWrap = FALSE
INVARIANTS TypeOK C07_NoSilentCorruption C07_Cut C07_Prefix C08_Concat C08_MemberEnd C06_ValidAccepted
CHECK_DEADLOCK FALSE
