SPECIFICATION Spec
CONSTANTS
  MaxMembers = 3
  Payloads = {0, 1, 2}
  MaxTrail = 2
INVARIANTS TypeOK C07_NoSilentCorruption C07_Cut C07_Prefix C08_Concat C08_MemberEnd
CHECK_DEADLOCK FALSE
