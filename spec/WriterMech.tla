------------------------------ MODULE WriterMech ------------------------------
(* Implementation-shaped model of compress/flate/internal/deflate (dyn and      *)
(* huffman-only compressors behind deflate.Writer).  One action per critical    *)
(* section; data abstracted to byte counts; one token == one byte.              *)
EXTENDS Naturals, Sequences, FiniteSets, TLC

CONSTANTS Variant,            \* "dyn" | "huff"
          Cap, W, TokMax, Keep,
          Sizes, MaxOps, FailAts,
          \* deviations of the pinned code from the intended design (TRUE = as read)
          DevResetKeepsTokens, DevErrNotStored, DevNoClosedState,
          DevHuffPadBeforeSync, DevHuffEmptyNoEOB, DevHuffCloseDropsDst

VARIABLES pc, cur, idx, end, pend, bitMod, out, calls, failAt, down, werr, lcNil,
          acc, last, nops, afterCalls, panicked, seen

vars == <<pc, cur, idx, end, pend, bitMod, out, calls, failAt, down, werr, lcNil,
          acc, last, nops, afterCalls, panicked, seen>>

Blk(n, fin, eob) == [k |-> "blk", n |-> n, fin |-> fin, eob |-> eob]
Pad(p)           == [k |-> "pad", p |-> p]
Sync             == [k |-> "sync"]
EmptyFinal       == [k |-> "efinal"]

Init ==
  /\ pc = "idle" /\ cur = [name |-> "none", n |-> 0]
  /\ idx = 0 /\ end = 0 /\ pend = 0 /\ bitMod = 0 /\ out = <<>>
  /\ calls = 0 /\ failAt \in FailAts /\ down = FALSE /\ werr = "nil" /\ lcNil = FALSE
  /\ acc = 0 /\ last = [name |-> "none", err |-> "nil"] /\ nops = 0
  /\ afterCalls = 0 /\ panicked = FALSE /\ seen = FALSE

-----------------------------------------------------------------------------
(* API entry points (deflate.Writer methods) *)

Call(name, n) ==
  /\ pc = "idle" /\ nops < MaxOps /\ ~panicked
  /\ nops' = nops + 1
  /\ cur' = [name |-> name, n |-> n] /\ seen' = FALSE
  /\ IF werr # "nil" /\ ~(name = "Close" /\ werr = "closed")
       THEN /\ pc' = "idle" /\ last' = [name |-> name, err |-> werr]     \* sticky error
            /\ UNCHANGED <<idx,end,pend,bitMod,out,calls,failAt,down,werr,lcNil,acc,afterCalls,panicked>>
     ELSE IF name = "Close" /\ werr = "closed"
       THEN /\ pc' = "idle" /\ last' = [name |-> name, err |-> "nil"]     \* idempotent Close
            /\ UNCHANGED <<idx,end,pend,bitMod,out,calls,failAt,down,werr,lcNil,acc,afterCalls,panicked>>
       ELSE /\ pc' = CASE name = "Write" -> "acc" [] name = "Flush" -> "tokF" [] name = "Close" -> "tokC"
            /\ UNCHANGED <<idx,end,pend,bitMod,out,calls,failAt,down,werr,lcNil,acc,afterCalls,panicked,last>>

Return(err, store) ==
  /\ pc' = "idle"
  /\ last' = [name |-> cur.name, err |-> err]
  /\ werr' = IF store THEN err ELSE werr

\* Writer.Write loop: Accumulate
Accumulate ==
  /\ pc = "acc"
  /\ IF cur.n = 0 THEN Return("nil", FALSE) /\ UNCHANGED <<cur,idx,end,pend,acc>>
     ELSE LET slide == (Variant = "dyn" /\ idx >= 2*W)
              idx1  == IF slide THEN W ELSE idx
              end1  == IF slide THEN end - (idx - W) ELSE end
              k     == IF cur.n < Cap - end1 THEN cur.n ELSE Cap - end1
          IN /\ idx' = idx1 /\ end' = end1 + k /\ acc' = acc + k
             /\ cur' = [cur EXCEPT !.n = @ - k]
             /\ pc' = IF end1 + k = Cap THEN "tokW" ELSE "acc"
             /\ UNCHANGED <<pend, last, werr>>
  /\ UNCHANGED <<bitMod,out,calls,failAt,down,lcNil,nops,afterCalls,panicked,seen>>

\* lz77.generate / huffman-only has no tokeniser: everything in the buffer is one block
Tokenise(flush, next) ==
  /\ LET upto == IF flush \/ Variant = "huff" THEN end ELSE (IF end > Keep THEN end - Keep ELSE idx)
         got  == IF upto > idx THEN upto - idx ELSE 0
     IN /\ pend' = pend + got /\ idx' = IF upto > idx THEN upto ELSE idx
  /\ pc' = next
  /\ UNCHANGED <<cur,end,bitMod,out,calls,failAt,down,werr,lcNil,acc,last,nops,afterCalls,panicked,seen>>

TokW == pc = "tokW" /\ Tokenise(FALSE, "encW")
TokF == pc = "tokF" /\ Tokenise(TRUE,  "encF")
TokC == pc = "tokC" /\ Tokenise(TRUE,  "encC")

\* one destination write; TRUE result iff it succeeded
DstOK == ~(failAt # 0 /\ calls + 1 >= failAt)

Emit(items) ==
  /\ calls' = calls + 1
  /\ afterCalls' = IF down THEN afterCalls + 1 ELSE afterCalls
  /\ IF lcNil THEN panicked' = TRUE /\ seen' = TRUE /\ UNCHANGED <<out, down>>
     ELSE /\ panicked' = FALSE
          /\ IF DstOK THEN out' = out \o items /\ UNCHANGED <<down, seen>>
                      ELSE down' = TRUE /\ seen' = TRUE /\ UNCHANGED out

\* encodeBlock for the three callers.  mode: "W" compress (no flush), "F" flush, "C" close
Encode(mode) ==
  LET flush   == mode # "W"
      final   == mode = "C"
      huff    == Variant = "huff"
      full    == pend >= TokMax
      n       == IF huff THEN pend ELSE IF full THEN TokMax ELSE pend
      more    == ~huff /\ pend - n > 0            \* goto again
      isLast  == final /\ ~more
      done    == IF mode = "W" THEN "acc" ELSE IF mode = "F" THEN "sync" ELSE "fin"
  IN
  IF final /\ end = 0 /\ ~huff                                   \* compressBlock: finalBlock && end == 0
     THEN /\ Emit(<<EmptyFinal>>) /\ pc' = "finE" /\ UNCHANGED <<pend, bitMod>>
  ELSE IF final /\ huff /\ pend = 0 /\ end = 0
     THEN /\ Emit(<<EmptyFinal>>) /\ pc' = "finE" /\ UNCHANGED <<pend, bitMod>>
  ELSE IF ~huff /\ ~flush /\ ~full                               \* tokens < max && !flush: return
     THEN /\ pc' = done /\ UNCHANGED <<pend, bitMod, out, calls, down, afterCalls, panicked, seen>>
  ELSE IF huff /\ pend = 0 /\ ~final                             \* huffman-only Flush with nothing pending
     THEN /\ pc' = done
          /\ IF DevHuffEmptyNoEOB
               THEN \* header bits stay in the accumulator, no EOB is ever written
                    /\ out' = out \o <<Blk(0, FALSE, FALSE)>> /\ bitMod' \in {0, 3, 6}
                    /\ UNCHANGED <<pend, calls, down, afterCalls, panicked, seen>>
               ELSE UNCHANGED <<pend, bitMod, out, calls, down, afterCalls, panicked, seen>>
  ELSE \E b \in {0, 2, 5} :                                      \* data-dependent bit position after EOB
          /\ LET padBefore == huff /\ flush /\ ~final /\ DevHuffPadBeforeSync
                 items == IF isLast THEN <<Blk(n, TRUE, TRUE)>>
                          ELSE IF padBefore /\ b # 0 THEN <<Blk(n, FALSE, TRUE), Pad(8 - b)>>
                          ELSE <<Blk(n, FALSE, TRUE)>>
             IN Emit(items)
          /\ bitMod' = IF isLast \/ (huff /\ flush /\ DevHuffPadBeforeSync) THEN 0 ELSE b
          /\ pend' = pend - n
          /\ pc' = IF more THEN pc ELSE IF isLast THEN "finE" ELSE done

EncStep(mode, here) ==
  /\ pc = here
  /\ IF seen                                  \* encodeBlock returned an error: unwind
       THEN /\ Return("dst", IF mode = "W" THEN TRUE ELSE ~DevErrNotStored)
            /\ UNCHANGED <<pend, bitMod, out, calls, down, afterCalls, panicked, seen>>
       ELSE Encode(mode) /\ UNCHANGED <<werr, last>>
  /\ IF Variant = "huff" /\ ~seen
       THEN idx' = 0 /\ end' = 0              \* h.offset = 0 after the block
       ELSE UNCHANGED <<idx, end>>
  /\ UNCHANGED <<cur,failAt,lcNil,acc,nops>>

EncW == EncStep("W", "encW")
EncF == EncStep("F", "encF")
EncC == EncStep("C", "encC")

\* Flush: sync marker
SyncMarker ==
  /\ pc = "sync"
  /\ IF seen THEN Return("dst", ~DevErrNotStored) /\ UNCHANGED <<out,calls,down,afterCalls,panicked,bitMod,seen>>
     ELSE /\ Emit(<<Sync>>) /\ bitMod' = 0 /\ pc' = "syncE" /\ UNCHANGED <<last, werr>>
  /\ UNCHANGED <<cur,idx,end,pend,failAt,lcNil,acc,nops>>

SyncDone ==
  /\ pc = "syncE"
  /\ IF seen THEN Return("dst", ~DevErrNotStored) ELSE Return("nil", FALSE)
  /\ UNCHANGED <<cur,idx,end,pend,bitMod,out,calls,failAt,down,lcNil,acc,nops,afterCalls,panicked,seen>>

\* Close epilogue
Fin ==
  /\ pc \in {"fin", "finE"}
  /\ IF seen THEN Return("dst", ~DevErrNotStored) /\ UNCHANGED lcNil
     ELSE /\ lcNil' = (Variant = "huff" /\ DevHuffCloseDropsDst)
          /\ IF DevNoClosedState THEN Return("nil", FALSE)
             ELSE /\ pc' = "idle" /\ last' = [name |-> "Close", err |-> "nil"] /\ werr' = "closed"
  /\ UNCHANGED <<cur,idx,end,pend,bitMod,out,calls,failAt,down,acc,nops,afterCalls,panicked,seen>>

\* errors inside Write's Compress are stored (that part the pinned code does)
WriteErr ==
  /\ pc = "acc" /\ seen
  /\ Return("dst", TRUE)
  /\ UNCHANGED <<cur,idx,end,pend,bitMod,out,calls,failAt,down,lcNil,acc,nops,afterCalls,panicked,seen>>

Reset ==
  /\ pc = "idle" /\ nops < MaxOps /\ ~panicked
  /\ nops' = nops + 1
  /\ idx' = 0 /\ end' = 0 /\ bitMod' = 0 /\ out' = <<>> /\ calls' = 0 /\ down' = FALSE
  /\ failAt' = 0 /\ werr' = "nil" /\ lcNil' = FALSE /\ acc' = 0 /\ afterCalls' = 0
  /\ pend' = IF DevResetKeepsTokens /\ Variant = "dyn" THEN pend ELSE 0
  /\ last' = [name |-> "Reset", err |-> "nil"]
  /\ UNCHANGED <<pc, cur, panicked, seen>>

Next ==
  \/ \E n \in Sizes : Call("Write", n)
  \/ Call("Flush", 0) \/ Call("Close", 0) \/ Reset
  \/ (pc = "acc" /\ ~seen /\ Accumulate) \/ WriteErr
  \/ TokW \/ TokF \/ TokC \/ EncW \/ EncF \/ EncC
  \/ SyncMarker \/ SyncDone \/ Fin

Spec == Init /\ [][Next]_vars

-----------------------------------------------------------------------------
(* RFC 1951 at item level *)

RECURSIVE Parse(_, _, _)
\* returns [ok, dec, tail]; s = remaining items, d = bytes decoded so far, t = tail
Parse(s, d, t) ==
  IF s = <<>> THEN [ok |-> TRUE, dec |-> d, tail |-> t]
  ELSE LET h == Head(s) IN
       IF t = "final" THEN [ok |-> FALSE, dec |-> d, tail |-> "garbage"]
       ELSE CASE h.k = "blk"    -> IF ~h.eob THEN [ok |-> FALSE, dec |-> d, tail |-> "noeob"]
                                   ELSE Parse(Tail(s), d + h.n, IF h.fin THEN "final" ELSE "mid")
              [] h.k = "pad"    -> IF h.p >= 3 THEN [ok |-> FALSE, dec |-> d, tail |-> "badpad"]
                                   ELSE Parse(Tail(s), d, t)
              [] h.k = "sync"   -> Parse(Tail(s), d, "sync")
              [] h.k = "efinal" -> Parse(Tail(s), d, "final")

P == Parse(out, 0, "empty")

AtReturn(name) == pc = "idle" /\ last.name = name /\ last.err = "nil"

C10_FlushPoint == AtReturn("Flush") /\ werr = "nil" => P.ok /\ P.dec = acc /\ P.tail = "sync"
C01_RoundTrip  == AtReturn("Close") /\ ~down /\ P.tail # "garbage" => P.ok /\ P.dec = acc /\ P.tail = "final"
C16_NoGrowth   == AtReturn("Close") => P.tail # "garbage"
C16_NoPanic    == ~panicked
C14_Sticky     == afterCalls = 0
C14_Reported   == (pc = "idle" /\ down /\ last.name \in {"Write","Flush","Close"}) => last.err # "nil"
=============================================================================
