------------------------------ MODULE Lz77Window ------------------------------
(* Scaled transcription of lz77() (lz77.go:42-134), Accumulate's slide          *)
(* (dynamic.go:65-79) and compressBlock's loop (dynamic.go:85-110).              *)
(* Real constants: M = 65536 positions, W = 4096 | 32768, L = 261, Keep = 8,     *)
(* HashLen = 4, FirstCmp = 8, MinMatch = 4, MaxLen = 258, TokMax = 32767.        *)
EXTENDS Naturals, Sequences, FiniteSets, TLC

CONSTANTS N,          \* input length
          M,          \* position modulus (2^PosBits)
          W,          \* window
          L,          \* extra room in the buffer: Cap = 2W + L
          Keep,       \* bytes left unresolved when not flushing
          TableSize, MinMatch, MaxLen, FirstCmp, TokMax,
          MaxFlush,
          WindowTest  \* "lt" : dist-1 <  W (as in the code)   "le" : dist-1 <= W (a plausible slip)

VARIABLES In, fed, buf, idx, processed, table, toks, pend, flushes

vars == <<In, fed, buf, idx, processed, table, toks, pend, flushes>>
Cap == 2*W + L

Sym(b, o)      == b[o + 1]                                   \* 0-based access
HashAt(b, o)   == (Sym(b, o) * 2 + Sym(b, o + 1)) % TableSize
RECURSIVE Common(_, _, _, _)
Common(b, a, c, max) == IF max = 0 \/ Sym(b, a) # Sym(b, c) THEN 0 ELSE 1 + Common(b, a + 1, c + 1, max - 1)

Lit(at, v)         == [k |-> "lit", at |-> at, len |-> 1, dist |-> 0, v |-> v]
Match(at, len, d)  == [k |-> "match", at |-> at, len |-> len, dist |-> d, v |-> 0]

InWindow(d) == IF WindowTest = "lt" THEN d >= 1 /\ d - 1 < W ELSE d >= 1 /\ d - 1 <= W

\* update the next (up to) 3 hash entries, as the code does after a match
RECURSIVE Upd(_, _, _, _, _)
Upd(t, b, rel, o, i) == IF i = 3 THEN t ELSE Upd([t EXCEPT ![HashAt(b, o + i)] = (rel + o + i) % M], b, rel, o, i + 1)

RECURSIVE Emit258(_, _, _, _)
\* emit MaxLen-long tokens while ml > MaxLen; returns [off, ml, ts]
Emit258(off, ml, d, ts) ==
  IF ml > MaxLen THEN Emit258(off + MaxLen, ml - MaxLen, d, Append(ts, [o |-> off, len |-> MaxLen, d |-> d]))
  ELSE [off |-> off, ml |-> ml, ts |-> ts]

RECURSIVE Loop(_, _, _, _, _, _, _)
\* b buffer, rel = processed - offset, off, t table, ts tokens (buffer offsets), n tokens so far, bad = an out-of-bounds prev was formed
Loop(b, rel, off, t, ts, flush, bad) ==
  LET end == Len(b) - Keep IN
  IF Len(ts) > TokMax THEN [off |-> off, t |-> t, ts |-> ts, bad |-> bad]
  ELSE IF Len(b) >= Keep /\ off < end THEN
    LET h    == HashAt(b, off)
        cur  == (rel + off) % M
        d    == (cur + M - t[h]) % M
        t1   == [t EXCEPT ![h] = cur]
    IN IF InWindow(d) THEN
         IF d > off THEN Loop(b, rel, off + 1, t1, Append(ts, [o |-> off, len |-> 1, d |-> 0]), flush, TRUE)  \* prev < 0
         ELSE
         LET prev  == off - d
             first == Common(b, prev, off, FirstCmp)
             rest  == IF end - off >= 2 * FirstCmp
                         THEN Common(b, prev + FirstCmp, off + FirstCmp, end - off - FirstCmp) ELSE 0
             ml    == IF first < FirstCmp THEN first ELSE FirstCmp + rest
             big   == Emit258(off, ml, d, ts)
             t2    == IF ml > MaxLen THEN Upd(t1, b, rel, off, 0) ELSE t1
         IN IF big.ml >= MinMatch
              THEN Loop(b, rel, big.off + big.ml, Upd(t2, b, rel, big.off, 0),
                        Append(big.ts, [o |-> big.off, len |-> big.ml, d |-> d]), flush, bad)
              ELSE Loop(b, rel, big.off + 1, t2, Append(big.ts, [o |-> big.off, len |-> 1, d |-> 0]), flush, bad)
       ELSE Loop(b, rel, off + 1, t1, Append(ts, [o |-> off, len |-> 1, d |-> 0]), flush, bad)
  ELSE IF flush /\ off < Len(b)
    THEN Loop(b, rel, off + 1, t, Append(ts, [o |-> off, len |-> 1, d |-> 0]), flush, bad)
    ELSE [off |-> off, t |-> t, ts |-> ts, bad |-> bad]

\* tokens in absolute stream coordinates
Abs(ts, base, b) == [i \in 1..Len(ts) |->
                       IF ts[i].d = 0 THEN Lit(base + ts[i].o, Sym(b, ts[i].o))
                       ELSE Match(base + ts[i].o, ts[i].len, ts[i].d)]

\* compressBlock(flush): call generate until idx == end or the token budget is not exhausted
RECURSIVE Compress(_, _, _, _, _, _, _)
Compress(b, pr, ix, t, acc, flush, bad) ==
  LET r    == Loop(b, pr - ix, ix, t, <<>>, flush, bad)
      pr1  == pr + (r.off - ix)
      acc1 == acc \o Abs(r.ts, pr - ix, b)
  IN IF Len(r.ts) > TokMax /\ r.off < Len(b) /\ r.off > ix
       THEN Compress(b, pr1, r.off, r.t, acc1, flush, r.bad)          \* goto again
       ELSE [idx |-> r.off, processed |-> pr1, t |-> r.t, ts |-> acc1, bad |-> r.bad]

Init ==
  /\ In \in [1..N -> {0, 1}]
  /\ fed = 0 /\ buf = <<>> /\ idx = 0 /\ processed = 0
  /\ table = [h \in 0..TableSize-1 |-> 0] /\ toks = <<>> /\ pend = FALSE /\ flushes = 0

\* Write of one byte: Accumulate (slide, copy), Compress when the buffer is full
Feed ==
  /\ fed < N /\ ~pend
  /\ LET slide == idx >= 2 * W
         b0    == IF slide THEN SubSeq(buf, idx - W + 1, Len(buf)) ELSE buf
         i0    == IF slide THEN W ELSE idx
         b1    == Append(b0, In[fed + 1])
     IN /\ fed' = fed + 1
        /\ IF Len(b1) = Cap
             THEN LET r == Compress(b1, processed, i0, table, <<>>, FALSE, FALSE)
                  IN /\ buf' = b1 /\ idx' = r.idx /\ processed' = r.processed /\ table' = r.t
                     /\ toks' = toks \o r.ts /\ pend' = r.bad
             ELSE /\ buf' = b1 /\ idx' = i0 /\ UNCHANGED <<processed, table, toks, pend>>
  /\ UNCHANGED <<In, flushes>>

FlushAct ==
  /\ ~pend /\ (flushes < MaxFlush \/ fed = N) /\ idx < Len(buf)
  /\ LET r == Compress(buf, processed, idx, table, <<>>, TRUE, FALSE)
     IN /\ idx' = r.idx /\ processed' = r.processed /\ table' = r.t /\ toks' = toks \o r.ts /\ pend' = r.bad
  /\ flushes' = flushes + 1
  /\ UNCHANGED <<In, fed, buf>>

Next == Feed \/ FlushAct
Spec == Init /\ [][Next]_vars

-----------------------------------------------------------------------------
C19_InWindow == \A i \in 1..Len(toks) : toks[i].k = "match" => toks[i].dist \in 1..W /\ toks[i].dist <= toks[i].at
C01_Verified == \A i \in 1..Len(toks) :
                  IF toks[i].k = "match"
                    THEN \A j \in 0..toks[i].len - 1 : In[toks[i].at + j + 1] = In[toks[i].at - toks[i].dist + j + 1]
                    ELSE In[toks[i].at + 1] = toks[i].v
RECURSIVE Covered(_, _)
Covered(i, p) == IF i > Len(toks) THEN p ELSE IF toks[i].at # p THEN N + 1 ELSE Covered(i + 1, p + toks[i].len)
C01_Coverage == Covered(1, 0) = processed /\ processed <= fed
MemSafe      == ~pend                         \* no load from a negative buffer index
LenBounds    == \A i \in 1..Len(toks) : toks[i].k = "match" => toks[i].len \in MinMatch..MaxLen
Vac_NoMatch  == \A i \in 1..Len(toks) : toks[i].k # "match"
Vac_NoLong   == \A i \in 1..Len(toks) : toks[i].dist < W
Vac_NoWrapMatch == \A i \in 1..Len(toks) : toks[i].k = "match" => toks[i].at < M
AllConsumed  == (fed = N /\ idx = Len(buf)) => processed = N
=============================================================================
