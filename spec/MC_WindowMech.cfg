SPECIFICATION Spec
CONSTANTS
  H = 3
  Slack = 5
  MaxCopy = 3
  Slop = 5
  MaxEntries = 4
  DevKeepParkedOnRollback = FALSE
  DevEobCountsAsParked = FALSE
INVARIANTS TypeOK C02_SameBytes C02_Complete C03_NoPanic
CHECK_DEADLOCK FALSE
