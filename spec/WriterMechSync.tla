---------------------------- MODULE WriterMechSync ----------------------------
(* WriterMech plus one piece of state the pinned code does not have: the       *)
(* buffer position covered by the last sync marker.  With the deviation         *)
(* DevFlushSkipsSameEnd a Flush that finds `end` where the previous Flush left  *)
(* it (and no tokens pending) writes only the marker - sound while positions    *)
(* are absolute, unsound in this compressor because Accumulate slides the       *)
(* buffer: Flush at p in [2W, Cap), Write(p - W), Flush arrives at the same     *)
(* `end` with new data.  TLC finds that history (C10_FlushPoint fails); it is   *)
(* the "alias" family of the C10 check.  With the deviation off the module is   *)
(* WriterMech with a history variable, and all its invariants hold.             *)
EXTENDS WriterMech

CONSTANT DevFlushSkipsSameEnd
VARIABLE syncEnd

varsS == <<vars, syncEnd>>

InitS == Init /\ syncEnd = 0

SkipCond == DevFlushSkipsSameEnd /\ Variant = "dyn" /\ pc = "tokF" /\ end = syncEnd /\ pend = 0

\* Flush with nothing new since the last marker: no compressBlock, straight to the marker
FlushSkip ==
  /\ SkipCond
  /\ pc' = "sync"
  /\ UNCHANGED <<cur, idx, end, pend, bitMod, out, calls, failAt, down, werr, lcNil,
                 acc, last, nops, afterCalls, panicked, seen, syncEnd>>

IsReset == pc = "idle" /\ nops' = nops + 1 /\ last'.name = "Reset"

NextS ==
  \/ FlushSkip
  \/ /\ ~SkipCond
     /\ Next
     /\ syncEnd' = IF pc = "encF" /\ pc' = "sync" THEN end'     \* compressBlock returned without error
                   ELSE IF IsReset THEN 0
                   ELSE syncEnd

SpecS == InitS /\ [][NextS]_varsS

\* the slide keeps `end` inside the buffer, and the recorded position is one `end` has had
SyncEndInBuffer == syncEnd <= Cap
=============================================================================
