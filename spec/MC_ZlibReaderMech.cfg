SPECIFICATION Spec
CONSTANTS
  Payloads = {0, 1, 2}
  MaxStreams = 2
  DevNilDictRejected = FALSE
INVARIANTS TypeOK C06_Interop C06_WrongDict C07_NoSilentCorruption C07_Cut C07_Prefix
CHECK_DEADLOCK FALSE
