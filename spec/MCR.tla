---- MODULE MCR ----
(* Model constants for ReaderMech: three token streams with sync markers at *)
(* different bit offsets (TLC cfg files cannot hold record constants).      *)
EXTENDS ReaderMech
T(b, o, k) == [b |-> b, o |-> o, k |-> k]
MCStreams ==
  { << T(17,0,"sym"), T(9,2,"sym"), T(7,0,"sym"), T(0,0,"sync"), T(20,3,"sym"), T(7,0,"end") >>,
    << T(3,0,"sym"), T(61,5,"sym"), T(1,0,"end") >>,
    << T(10,1,"sym"), T(0,0,"sync"), T(0,0,"sync"), T(12,1,"end") >> }
====
