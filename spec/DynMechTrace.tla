------------------------------ MODULE DynMechTrace ------------------------------
(***************************************************************************)
(* Mechanism-level trace validation of the level 1/2 compressor            *)
(* (compress/flate/internal/deflate, dynCompressor): events emitted by the *)
(* verif-tagged hooks at the critical sections of the real code are        *)
(* checked against the implementation-shaped rules that WriterMech models  *)
(* in the small - here with the real constants.  A mismatch is reported as *)
(* MODEL-DRIFT: it says that the implementation no longer works the way    *)
(* the mechanism model describes (buffer cursors, slide rule, token-block  *)
(* limit, output pieces, what Reset clears); it is NOT a verdict about a   *)
(* property - the contract specifications decide those (DESIGN R2).        *)
(*                                                                         *)
(* Events (field m names the hook):                                        *)
(*   new    a = window size                                                *)
(*   slide  a = bytes dropped, b = idx after, c = end after                *)
(*   acc    a = bytes offered, b = bytes taken, c = idx, d = end (after)   *)
(*   gen    a = flush (0/1), b = idx after, c = end, d = tokens pending    *)
(*   blk    a = last (0/1), b = tokens in the block (without end-of-block) *)
(*   out    a = bytes handed to the destination, b = 1 if it failed        *)
(*   sync   a = bytes of the sync marker piece                             *)
(*   efinal a = bytes of the empty final block piece                       *)
(*   reset                                                                 *)
(***************************************************************************)
EXTENDS Integers, Sequences, FiniteSets, TLC, Json

VARIABLES l, drift,
          W,        \* window size of the current compressor
          idx, end, \* cursors of the accumulation buffer
          pend,     \* tokens pending (as last reported by gen)
          dstDown   \* a destination write has failed
mvars == <<W, idx, end, pend, dstDown>>

Trace == ndJsonDeserialize("trace.ndjson")
Cap    == 2 * W + 258          \* fill limit of the buffer
TokMax == 32767                \* a block is cut when this many tokens are pending
Piece  == 8192                 \* output pieces handed to the destination
TailMax == 16                  \* bytes the match finders may leave unresolved when not flushing

Chk(name, cond) == IF cond THEN {} ELSE {name}
Note(fs) == IF fs = {} THEN drift ELSE Append(drift, [l |-> l, c |-> fs])

TInit == l = 1 /\ drift = <<>> /\ W = 32768 /\ idx = 0 /\ end = 0 /\ pend = 0 /\ dstDown = FALSE

Mech(e) ==
  CASE e.m = "new" ->
         /\ W' = e.a /\ idx' = 0 /\ end' = 0 /\ pend' = 0 /\ dstDown' = FALSE
         /\ drift' = Note(Chk("window_is_4K_or_32K", e.a \in {4096, 32768}))
    [] e.m = "slide" ->
         \* the buffer slides only when the resolved part has reached two windows, and keeps exactly one window of history
         /\ drift' = Note(   Chk("slide_only_at_two_windows", idx >= 2 * W)
                        \cup Chk("slide_keeps_one_window", e.b = W /\ e.a = idx - W /\ e.c = end - e.a))
         /\ idx' = e.b /\ end' = e.c /\ UNCHANGED <<W, pend, dstDown>>
    [] e.m = "acc" ->
         /\ drift' = Note(   Chk("acc_takes_what_fits", e.b = (IF e.a < Cap - end THEN e.a ELSE Cap - end))
                        \cup Chk("acc_moves_only_end", e.c = idx /\ e.d = end + e.b)
                        \cup Chk("acc_within_buffer", e.d <= Cap))
         /\ idx' = e.c /\ end' = e.d /\ UNCHANGED <<W, pend, dstDown>>
    [] e.m = "gen" ->
         /\ drift' = Note(   Chk("gen_advances", e.b >= idx /\ e.b <= e.c /\ e.c = end)
                        \cup Chk("gen_token_limit", e.d <= TokMax + 1)
                        \cup Chk("gen_flush_resolves_all", (e.a = 1 /\ e.d < TokMax) => e.b = e.c)
                        \cup Chk("gen_leaves_short_tail", (e.a = 0 /\ e.d < TokMax) => e.c - e.b <= TailMax))
         /\ idx' = e.b /\ pend' = e.d /\ UNCHANGED <<W, end, dstDown>>
    [] e.m = "blk" ->
         /\ drift' = Note(   Chk("blk_has_the_pending_tokens", e.b = pend)
                        \cup Chk("blk_last_only_when_all_resolved", e.a = 1 => idx = end))
         /\ pend' = 0 /\ UNCHANGED <<W, idx, end, dstDown>>
    [] e.m = "out" ->
         /\ drift' = Note(   Chk("out_piece_size", e.a <= Piece)
                        \cup Chk("out_nothing_after_failure", ~dstDown))
         /\ dstDown' = (dstDown \/ e.b = 1) /\ UNCHANGED <<W, idx, end, pend>>
    [] e.m \in {"sync", "efinal"} ->
         /\ drift' = Note(   Chk("marker_piece_size", e.a <= 16)
                        \cup Chk("marker_nothing_after_failure", ~dstDown)
                        \cup Chk("sync_after_everything_encoded", e.m = "sync" => pend = 0 /\ idx = end))
         /\ UNCHANGED mvars
    [] e.m = "reset" ->
         /\ idx' = 0 /\ end' = 0 /\ pend' = 0 /\ dstDown' = FALSE /\ UNCHANGED <<W, drift>>

TNext ==
  /\ l <= Len(Trace) /\ l' = l + 1
  /\ LET e == Trace[l] IN
     IF e.ev = "Mech" THEN Mech(e) ELSE UNCHANGED <<mvars, drift>>

TSpec == TInit /\ [][TNext]_<<l, drift, mvars>>
Report == (l = Len(Trace) + 1) => PrintT("DONE " \o ToString(Len(Trace)) \o " " \o ToJson(drift))
=============================================================================
