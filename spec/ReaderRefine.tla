------------------------------ MODULE ReaderRefine ------------------------------
(***************************************************************************)
(* ReaderMech refines ReaderContract.  The implementation-shaped model of  *)
(* the inflater's input side (source -> bufio -> peek -> bit buffer ->     *)
(* tokens -> output window -> Read) runs together with a monitor holding   *)
(* the contract's abstract state.  Every step of the mechanism that a      *)
(* recorder would see - a call on the source, the Reader asking a gated    *)
(* source for more, a Read returning to the caller, the end of the run -   *)
(* is turned into the event the harness logs for the real code and judged  *)
(* by the same clauses.  With the deviation constants of ReaderMech set to *)
(* what the pinned code did, TLC returns the violated clause names.        *)
(***************************************************************************)
EXTENDS MCR, Integers

VARIABLES m_mode, m_b, m_given, m_rerr, m_pulled, m_srcFailed, m_gated, m_grp, m_gout,
          ended,     \* the End event has been produced
          mviol      \* contract clauses violated so far

mvars == <<m_mode, m_b, m_given, m_rerr, m_pulled, m_srcFailed, m_gated, m_grp, m_gout>>

RC == INSTANCE ReaderContract WITH
        mode <- m_mode, b <- m_b, given <- m_given, rerr <- m_rerr, pulled <- m_pulled,
        srcFailed <- m_srcFailed, gated <- m_gated, grp <- m_grp, gout <- m_gout

\* what the oracles say about the bytes the source will really serve: the whole stream (plus
\* trailing bytes), or - when the source ends after the released prefix - a stream cut short
OutWithin(s, rel) == LET I == { i \in 1..Len(s) : BitAfter(s, i) <= rel * 8 } IN
                     IF I = {} THEN 0 ELSE OutUpTo(s, CHOOSE i \in I : \A j \in I : j <= i)
Cut(s, rel, aft)  == aft = "eof" /\ rel < TotalBytes(s)
Orc(s, rel, aft)  == IF Cut(s, rel, aft)
                       THEN [verdict |-> "uxeof", len |-> OutWithin(s, rel), end |-> 0, dead |-> FALSE]
                       ELSE [verdict |-> "eof", len |-> OutUpTo(s, Len(s)), end |-> TotalBytes(s), dead |-> FALSE]

\* what the harness knows when the Reader is created
BeginAs(s, rel, aft, ctor) ==
  [ev |-> "Begin", kind |-> "flate", ctor |-> ctor, exact |-> TRUE,   \* the caller hands over an io.ByteReader (C05 applies); Direct says whether the Reader peeks it directly
   sLen |-> IF aft = "eof" THEN rel ELSE SrcLen(s),
   released |-> rel, after |-> aft,
   decAt |-> IF rel \in SyncEnds(s) /\ aft # "eof" THEN DecAt(s, rel) ELSE -1,
   mayGate |-> rel < TotalBytes(s),
   ref |-> Orc(s, rel, aft), std |-> Orc(s, rel, aft), oracleSame |-> TRUE, cut |-> FALSE, partial |-> FALSE,
   member |-> FALSE, hdrCheck |-> FALSE, group |-> "", groupClause |-> "NONE.group",
   wantLen |-> -1, wantDigest |-> "", panic |-> "", failing |-> (aft = "error"), truncated |-> Cut(s, rel, aft)]

\* bytes still deliverable from an abandoned stream are not bytes of the current one
BeginOf(s, rel, aft) == BeginAs(s, rel, aft, "new")

ReadEv(k, n, e) == [ev |-> "Read", k |-> k, n |-> n, err |-> e, errd |-> "", ok |-> (stale = 0), cnt |-> 1, panic |-> "", dead |-> FALSE]

RInit ==
  /\ Init
  /\ m_mode = "run" /\ m_b = BeginOf(S, released, after) /\ m_given = 0 /\ m_rerr = "nil" /\ m_pulled = 0
  /\ m_srcFailed = FALSE /\ m_gated = FALSE /\ m_grp = "" /\ m_gout = <<>>
  /\ ended = FALSE /\ mviol = {}

\* a call on the source (one bufio fill attempt), possibly hitting the gate
MonPeekFill ==
  /\ PeekFill
  /\ LET se == [ev |-> "Src", pos |-> srcPos',
                err |-> IF srcErr' # srcErr THEN "injected" ELSE IF eof' /\ ~eof THEN "eof" ELSE "nil", n |-> srcPos' - srcPos, cnt |-> 1]
     IN IF waiting' /\ ~waiting
          THEN \* the Reader asks for bytes a blocking source would not deliver
               /\ m_gated' = TRUE
               /\ mviol' = mviol \cup RC!GateFailed([ev |-> "Gate", given |-> deliv])
               /\ UNCHANGED <<m_mode, m_b, m_given, m_rerr, m_pulled, m_srcFailed, m_grp, m_gout>>
          ELSE /\ RC!Src(se) /\ mviol' = mviol \cup RC!SrcFailedC(se)
  /\ UNCHANGED ended

\* a caller Read: delivery, a (sticky) final result, or the start of a decoding step
MonRead(k) ==
  /\ ReadCall(k)
  /\ IF prod > deliv
       THEN LET e == ReadEv(k, deliv' - deliv, "nil") IN
            RC!Read(e) /\ mviol' = mviol \cup RC!ReadFailed(e) /\ UNCHANGED ended
     ELSE IF err # "nil"
       THEN LET e == ReadEv(k, 0, err) IN
            /\ RC!Read(e)
            /\ mviol' = mviol \cup RC!ReadFailed(e)
                          \cup (IF ended THEN {} ELSE
                                  \* End: where the caller's source stands after the final result
                                  LET b0 == m_b IN
                                  IF err = "eof" /\ b0.exact /\ (b0.sLen - CallerPos) # b0.sLen - b0.ref.end
                                    THEN {"C05.exact_end"} ELSE {})
            /\ ended' = TRUE
       ELSE UNCHANGED <<mvars, mviol, ended>>

\* Reset(src): for the contract a new segment begins (C13: the same contract as for a new Reader)
MonReset ==
  /\ ResetMech
  /\ RC!Begin(BeginAs(S', released', after', "reset"))
  /\ ended' = FALSE /\ UNCHANGED mviol

Silent(A) == A /\ UNCHANGED <<mvars, mviol, ended>>

RNext ==
  \/ \E k \in ReadSizes : MonRead(k)
  \/ MonPeekFill
  \/ MonReset
  \/ Silent(PeekDone) \/ Silent(Decode) \/ Silent(Finish)

RSpec == RInit /\ [][RNext]_<<vars, mvars, ended, mviol>>

Refines == mviol = {}
\* non-vacuity: runs do reach a final result and the gate
Vac_NoFinal == ~ended
Vac_NoGate  == ~m_gated
=============================================================================
