------------------------------ MODULE MemberGen ------------------------------
(***************************************************************************)
(* Generator of gzip files for C08: a file is a sequence of members, each  *)
(* with a payload class and a producer, followed by a trailer class; the   *)
(* reading mode (one concatenated stream, or member by member with         *)
(* Multistream(false) and Reset on the same source) is part of the         *)
(* behaviour.  TLC enumerates every combination within the bounds and      *)
(* states what a conforming reader must deliver.                           *)
(***************************************************************************)
EXTENDS Integers, Sequences, FiniteSets, TLC, Json

CONSTANTS MaxMembers, Payloads, Producers, Trailers, Modes

VARIABLES members, trailer, mode, stage
vars == <<members, trailer, mode, stage>>

Init == members = <<>> /\ trailer = "none" /\ mode = "concat" /\ stage = "build"

AddMember == /\ stage = "build" /\ Len(members) < MaxMembers
             /\ \E p \in Payloads, e \in Producers : members' = Append(members, [payload |-> p, producer |-> e])
             /\ UNCHANGED <<trailer, mode, stage>>
Finish    == /\ stage = "build" /\ Len(members) >= 1
             /\ \E t \in Trailers, m \in Modes :
                  /\ (m = "concat" => t = "none")   \* in the default mode anything after the last member is an error, not payload
                  /\ trailer' = t /\ mode' = m
             /\ stage' = "done" /\ UNCHANGED members
Next == AddMember \/ Finish
Spec == Init /\ [][Next]_vars

\* what the reader must deliver
Expect == IF mode = "concat" THEN "concatenation of all payloads, then io.EOF"
          ELSE "each payload and header separately, in order; the trailer bytes stay unread"
PrintFile == stage = "done" => PrintT("BEH " \o ToJson([members |-> members, trailer |-> trailer, mode |-> mode]))
=============================================================================
