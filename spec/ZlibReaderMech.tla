---------------------------- MODULE ZlibReaderMech ----------------------------
(***************************************************************************)
(* Implementation-shaped model of the zlib reader (compress/zlib/reader.go)*)
(* over the items of an RFC 1950 stream                                    *)
(*     Z(fd)   CMF/FLG with the FDICT bit fd                               *)
(*     I(d)    DICTID: the Adler-32 of dictionary d (present iff FDICT)    *)
(*     B(n,u)  a DEFLATE body of n payload units; u: it refers back into   *)
(*             the preset dictionary                                       *)
(*     A(ok)   the Adler-32 trailer, matching the payload or not           *)
(* cut short after any item.  Dictionaries: "none" (nil), "empty", "a",    *)
(* "b"; the Adler-32 of no bytes is 1, so "none" and "empty" have the same *)
(* id.  The reader is constructed (or Reset: the same code) with a         *)
(* dictionary of its own; a second stream may follow on a new source       *)
(* (Reset), for which the model must behave as for the first (C13).        *)
(***************************************************************************)
EXTENDS Integers, Sequences, FiniteSets, TLC

CONSTANTS Payloads,          \* payload sizes
          MaxStreams,        \* streams read through the same reader (Reset between them)
          DevNilDictRejected \* deviation: a stream with FDICT is refused when the reader has no dictionary at all

Dicts == {"none", "empty", "a", "b"}
Id(d) == IF d \in {"none", "empty"} THEN "id1" ELSE d

VARIABLES stream,    \* the items of the current stream
          wdict,     \* the dictionary it was written with
          rdict,     \* the dictionary the reader was given
          cut, pos, phase, given, err, nstreams,
          hadDecomp  \* the reader has been used before (Reset reuses its inflater)
vars == <<stream, wdict, rdict, cut, pos, phase, given, err, nstreams, hadDecomp>>

Z(fd) == [k |-> "Z", fd |-> fd]
I(d)  == [k |-> "I", id |-> Id(d)]
B(n, u) == [k |-> "B", n |-> n, u |-> u]
A(ok) == [k |-> "A", ok |-> ok]

\* what a zlib Writer given dictionary w emits (both libraries set FDICT iff w is not nil);
\* a body can only refer to the dictionary if there is something in it
StreamsOf(w) ==
  { (IF w = "none" THEN <<Z(FALSE)>> ELSE <<Z(TRUE), I(w)>>) \o <<B(n, u), A(ok)>> :
      n \in Payloads, u \in (IF w \in {"a", "b"} THEN BOOLEAN ELSE {FALSE}), ok \in BOOLEAN }

NewStream ==
  /\ wdict' \in Dicts /\ rdict' \in Dicts
  /\ stream' \in StreamsOf(wdict')
  /\ cut' \in 0..Len(stream')
  /\ pos' = 0 /\ phase' = "header" /\ given' = 0 /\ err' = "nil"

Init ==
  /\ wdict \in Dicts /\ rdict \in Dicts /\ stream \in StreamsOf(wdict) /\ cut \in 0..Len(stream)
  /\ pos = 0 /\ phase = "header" /\ given = 0 /\ err = "nil" /\ nstreams = 1 /\ hadDecomp = FALSE

Have(i) == i <= cut
Fail(e) == err' = e /\ phase' = "done"

\* Reset(r, dict) / NewReaderDict: CMF/FLG, then DICTID if FDICT is set
ReadHeader ==
  /\ phase = "header"
  /\ IF ~Have(1) THEN Fail("uxeof") /\ UNCHANGED pos
     ELSE IF ~stream[1].fd THEN pos' = 1 /\ phase' = "body" /\ UNCHANGED err
     ELSE IF ~Have(2) THEN Fail("uxeof") /\ pos' = 1
     ELSE IF (DevNilDictRejected /\ rdict = "none") \/ stream[2].id # Id(rdict)
            THEN Fail("dictionary") /\ pos' = 2
     ELSE pos' = 2 /\ phase' = "body" /\ UNCHANGED err
  /\ UNCHANGED <<stream, wdict, rdict, cut, given, nstreams, hadDecomp>>

\* Read: the body (its references into the dictionary resolve, the ids having matched), then the trailer
ReadBody ==
  /\ phase = "body"
  /\ LET b == pos + 1 IN
     IF ~Have(b) THEN Fail("uxeof") /\ UNCHANGED <<pos, given>>
     ELSE IF given < stream[b].n THEN given' = given + 1 /\ UNCHANGED <<pos, phase, err>>
     ELSE IF ~Have(b + 1) THEN Fail("uxeof") /\ pos' = b /\ UNCHANGED given
     ELSE IF ~stream[b + 1].ok THEN Fail("checksum") /\ pos' = b + 1 /\ UNCHANGED given
     ELSE Fail("eof") /\ pos' = b + 1 /\ UNCHANGED given
  /\ UNCHANGED <<stream, wdict, rdict, cut, nstreams, hadDecomp>>

\* Reset onto another stream, whatever state the previous one was left in
Reset ==
  /\ nstreams < MaxStreams
  /\ NewStream /\ nstreams' = nstreams + 1 /\ hadDecomp' = TRUE

Next == ReadHeader \/ ReadBody \/ Reset
Spec == Init /\ [][Next]_vars

-----------------------------------------------------------------------------
Complete == cut = Len(stream)
TrailerOK == stream[Len(stream)].ok
BodyN == stream[Len(stream) - 1].n
\* C06: a complete, intact stream is read to io.EOF by a reader whose dictionary has the id the
\* stream names - in particular a stream written with an EMPTY dictionary by a reader without one -
\* and by any reader if the stream names none
C06_Interop ==
  (phase = "done" /\ Complete /\ TrailerOK /\ (wdict = "none" \/ Id(wdict) = Id(rdict)))
     => err = "eof" /\ given = BodyN
\* C06: a stream that names another dictionary is refused before any payload is handed out
C06_WrongDict ==
  (phase = "done" /\ cut >= 2 /\ wdict # "none" /\ Id(wdict) # Id(rdict)) => err = "dictionary" /\ given = 0
\* C07: io.EOF only with a matching trailer; a cut stream ends in unexpected EOF
C07_NoSilentCorruption == err = "eof" => Complete /\ TrailerOK /\ given = BodyN
C07_Cut == (phase = "done" /\ ~Complete /\ (wdict = "none" \/ Id(wdict) = Id(rdict) \/ cut < 2)) => err = "uxeof"
C07_Prefix == given <= BodyN
\* C13: nothing of an earlier stream influences the verdict (all of the above hold for every stream read)
TypeOK == pos <= cut /\ err \in {"nil", "eof", "uxeof", "checksum", "dictionary"}
=============================================================================
