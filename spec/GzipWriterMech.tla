---------------------------- MODULE GzipWriterMech ----------------------------
(***************************************************************************)
(* Implementation-shaped model of the gzip Writer (compress/gzip/gzip.go)  *)
(* on top of an abstract flate compressor, run together with a monitor     *)
(* that holds WriterContract's state and judges every API call by the      *)
(* same clauses that judge traces of the real code (see WriterRefine).     *)
(*                                                                         *)
(* gzip layer (transcribed): the fields wroteHeader, closed, err and the   *)
(* compressor pointer; the header is written lazily by the first call that *)
(* needs it - in one or two destination calls -, header fields that cannot *)
(* be encoded are detected there; Flush and Close call Write(nil) for its  *)
(* side effect and then look at err; Close sets closed before it works;    *)
(* Reset keeps only the level and the compressor.                          *)
(* flate layer (abstract): pending input; Write may or may not hand        *)
(* something to the destination, Flush hands over everything and a sync    *)
(* marker, Close everything and the final block; once closed or failed it  *)
(* answers with an error and leaves the destination alone.                 *)
(* The destination fails from its FailAt-th call on (0 = never).           *)
(***************************************************************************)
EXTENDS Integers, Sequences, FiniteSets, TLC

CONSTANTS Variant,             \* "gzip" | "zlib" (compress/zlib/writer.go: no closed flag, the header is written by
                               \* whichever call comes first, an empty Write returns before the compressor is asked)
          Sizes,               \* Write sizes
          MaxOps,              \* API calls per behaviour
          FailAts,             \* destination failure points
          DevHdrErrNotStored,  \* deviation: an unencodable header is reported by Write but not remembered
          DevCloseTwiceTrailer \* deviation: Close does not remember that it has run

VARIABLES wroteHeader, closed, err,   \* gzip.Writer fields; err: "nil" | "dst" | "hdr" | "flate"
          comp,                       \* the flate compressor: "none" | "open" | "closed" | "failed"
          pend,                       \* input the compressor has accepted and not yet emitted
          badHdr,                     \* the header fields cannot be encoded
          out,                        \* items handed to the destination since the last Reset
          calls, failAt, down, after, \* destination: calls so far, failure point, has failed, calls after the failure
          nops, panicked,
          \* the monitor: WriterContract's variables
          m_mode, m_kind, m_level, m_window, m_accel, m_period, m_acc, m_dec, m_tail,
          m_flushes, m_emitted, m_downSeen, m_closeFailed, m_cerr, mviol

gvars == <<wroteHeader, closed, err, comp, pend, badHdr, out, calls, failAt, down, after, nops, panicked>>
mvars == <<m_mode, m_kind, m_level, m_window, m_accel, m_period, m_acc, m_dec, m_tail,
           m_flushes, m_emitted, m_downSeen, m_closeFailed, m_cerr>>

C == INSTANCE WriterContract WITH
       StdQuirks <- FALSE,
       mode <- m_mode, kind <- m_kind, level <- m_level, window <- m_window, accel <- m_accel,
       period <- m_period, acc <- m_acc, dec <- m_dec, tail <- m_tail, flushes <- m_flushes,
       emitted <- m_emitted, downSeen <- m_downSeen, closeFailed <- m_closeFailed, cerr <- m_cerr

\* items: "h" first part of the header, "H" rest of the header (the header is complete after it),
\* <<"D", n>> compressed data of n bytes, "S" sync marker, "F" final block, "T" trailer
Hdr1 == <<"h">>   Hdr2 == <<"H">>   D(n) == <<"D", n>>   S == <<"S">>   F == <<"F">>   T == <<"T">>

Init ==
  /\ wroteHeader = FALSE /\ closed = FALSE /\ err = "nil" /\ comp = "none" /\ pend = 0
  /\ badHdr \in (IF Variant = "gzip" THEN BOOLEAN ELSE {FALSE}) /\ out = <<>> /\ calls = 0 /\ failAt \in FailAts /\ down = FALSE /\ after = 0
  /\ nops = 0 /\ panicked = FALSE
  /\ m_mode = "open" /\ m_kind = (IF badHdr THEN C!BadHdr ELSE Variant) /\ m_level = 1 /\ m_window = 32768
  /\ m_accel = FALSE /\ m_period = 0 /\ m_acc = 0 /\ m_dec = 0 /\ m_tail = "empty" /\ m_flushes = 0
  /\ m_emitted = 0 /\ m_downSeen = FALSE /\ m_closeFailed = FALSE /\ m_cerr = FALSE /\ mviol = {}

-----------------------------------------------------------------------------
(* A call is computed as a function from the state before it to a record   *)
(* of the state after it; sub-steps thread that record.                    *)
St == [wroteHeader |-> wroteHeader, closed |-> closed, err |-> err, comp |-> comp, pend |-> pend,
       out |-> out, calls |-> calls, down |-> down, after |-> after, panicked |-> panicked]

\* one destination call with item it
Dst(s, it) ==
  IF s.down THEN [s EXCEPT !.calls = @ + 1, !.after = @ + 1]
  ELSE IF failAt # 0 /\ s.calls + 1 >= failAt THEN [s EXCEPT !.calls = @ + 1, !.down = TRUE]
  ELSE [s EXCEPT !.calls = @ + 1, !.out = Append(@, it)]
DstFailed(s0, s1) == s1.down /\ (~s0.down \/ s1.after > s0.after)

\* the flate compressor: emit k of the pending bytes (k = 0: nothing), then the items in tl
Emit(s, k, tl) ==
  LET s1 == IF k > 0 THEN Dst(s, D(k)) ELSE s
      ok1 == ~DstFailed(s, s1)
      RECURSIVE Go(_, _)
      Go(x, rest) == IF rest = <<>> THEN x
                     ELSE LET y == Dst(x, Head(rest)) IN IF DstFailed(x, y) THEN y ELSE Go(y, Tail(rest))
      s2 == IF ok1 THEN Go([s1 EXCEPT !.pend = @ - k], tl) ELSE s1
  IN IF DstFailed(s, s2) THEN [s2 EXCEPT !.comp = "failed"] ELSE s2

CompWrite(s, n, k) ==   \* returns <<state, error>>
  IF s.comp = "none" THEN <<[s EXCEPT !.panicked = TRUE], "panic">>
  ELSE IF s.comp # "open" THEN <<s, "flate">>
  ELSE LET s1 == Emit([s EXCEPT !.pend = @ + n], k, <<>>) IN <<s1, IF s1.comp = "failed" THEN "dst" ELSE "nil">>
CompFlush(s) ==
  IF s.comp = "none" THEN <<[s EXCEPT !.panicked = TRUE], "panic">>
  ELSE IF s.comp # "open" THEN <<s, "flate">>
  ELSE LET s1 == Emit(s, s.pend, <<S>>) IN <<s1, IF s1.comp = "failed" THEN "dst" ELSE "nil">>
CompClose(s) ==
  IF s.comp = "none" THEN <<[s EXCEPT !.panicked = TRUE], "panic">>
  ELSE IF s.comp = "closed" THEN <<s, "nil">>
  ELSE IF s.comp = "failed" THEN <<s, "flate">>
  ELSE LET s1 == Emit(s, s.pend, <<F>>) IN
       IF s1.comp = "failed" THEN <<s1, "dst">> ELSE <<[s1 EXCEPT !.comp = "closed"], "nil">>

\* gzip.Writer.Write(p), len(p) = n; k: how much the compressor hands on during this call
GzWrite(s, n, k) ==   \* returns <<state, returned error, returned count>>
  IF s.err # "nil" THEN <<s, s.err, 0>>
  ELSE
    LET hdr == \* the lazy header
          IF s.wroteHeader THEN s
          ELSE IF badHdr /\ DevHdrErrNotStored THEN [s EXCEPT !.err = "hdr-unstored"]
          ELSE LET a == Dst([s EXCEPT !.wroteHeader = TRUE], Hdr1) IN
               IF DstFailed(s, a) THEN [a EXCEPT !.err = "dst"]
               ELSE IF badHdr THEN [a EXCEPT !.err = "hdr"]
               ELSE LET b == Dst(a, Hdr2) IN
                    IF DstFailed(a, b) THEN [b EXCEPT !.err = "dst"]
                    ELSE [b EXCEPT !.comp = IF @ = "none" THEN "open" ELSE @]
    IN IF hdr.err = "hdr-unstored" THEN <<[hdr EXCEPT !.err = "nil"], "hdr", 0>>
       ELSE IF hdr.err # "nil" THEN <<hdr, hdr.err, 0>>
       ELSE LET r == CompWrite(hdr, n, k) IN
            <<[r[1] EXCEPT !.err = IF r[2] = "panic" THEN @ ELSE r[2]], r[2], IF r[2] = "nil" THEN n ELSE 0>>

GzFlush(s) ==
  IF s.err # "nil" THEN <<s, s.err>>
  ELSE IF s.closed THEN <<s, "nil">>
  ELSE LET w == IF s.wroteHeader THEN <<s, "nil", 0>> ELSE GzWrite(s, 0, 0) IN
       IF w[1].panicked THEN <<w[1], "panic">>
       ELSE IF w[1].err # "nil" THEN <<w[1], w[1].err>>
       ELSE LET r == CompFlush(w[1]) IN <<[r[1] EXCEPT !.err = IF r[2] = "panic" THEN @ ELSE r[2]], r[2]>>

GzClose(s) ==
  IF s.err # "nil" THEN <<s, s.err>>
  ELSE IF s.closed /\ ~DevCloseTwiceTrailer THEN <<s, "nil">>
  ELSE LET s0 == [s EXCEPT !.closed = TRUE]
           w == IF s0.wroteHeader THEN <<s0, "nil", 0>> ELSE GzWrite(s0, 0, 0) IN
       IF w[1].panicked THEN <<w[1], "panic">>
       ELSE IF w[1].err # "nil" THEN <<w[1], w[1].err>>
       ELSE LET r == CompClose(w[1]) IN
            IF r[2] # "nil" THEN <<[r[1] EXCEPT !.err = IF r[2] = "panic" THEN @ ELSE r[2]], r[2]>>
            ELSE LET t == Dst(r[1], T) IN
                 IF DstFailed(r[1], t) THEN <<[t EXCEPT !.err = "dst"], "dst">> ELSE <<t, "nil">>

\* compress/zlib: writeHeader (two destination calls here: CMF/FLG, then DICTID or nothing more)
ZHeader(s) ==
  IF s.wroteHeader THEN s
  ELSE LET a == Dst([s EXCEPT !.wroteHeader = TRUE], Hdr1) IN
       IF DstFailed(s, a) THEN [a EXCEPT !.err = "dst"]
       ELSE LET b == Dst(a, Hdr2) IN
            IF DstFailed(a, b) THEN [b EXCEPT !.err = "dst"]
            ELSE [b EXCEPT !.comp = IF @ = "none" THEN "open" ELSE @]
ZWrite(s, n, k) ==
  LET h == ZHeader(s) IN
  IF h.err # "nil" THEN <<h, h.err, 0>>
  ELSE IF n = 0 THEN <<h, "nil", 0>>
  ELSE LET r == CompWrite(h, n, k) IN
       <<[r[1] EXCEPT !.err = IF r[2] \in {"panic", "nil"} THEN @ ELSE r[2]], r[2], IF r[2] = "nil" THEN n ELSE 0>>
ZFlush(s) ==
  LET h == ZHeader(s) IN
  IF h.err # "nil" THEN <<h, h.err>>
  ELSE LET r == CompFlush(h) IN <<[r[1] EXCEPT !.err = IF r[2] = "panic" THEN @ ELSE r[2]], r[2]>>
ZClose(s) ==
  LET h == ZHeader(s) IN
  IF h.err # "nil" THEN <<h, h.err>>
  ELSE LET r == CompClose(h) IN
       IF r[2] # "nil" THEN <<[r[1] EXCEPT !.err = IF r[2] = "panic" THEN @ ELSE r[2]], r[2]>>
       ELSE LET t == Dst(r[1], T) IN
            IF DstFailed(r[1], t) THEN <<[t EXCEPT !.err = "dst"], "dst">> ELSE <<t, "nil">>

-----------------------------------------------------------------------------
(* What independent decoders make of the items emitted so far. *)
RECURSIVE DataLen(_)
DataLen(o) == IF o = <<>> THEN 0 ELSE (IF Head(o)[1] = "D" THEN Head(o)[2] ELSE 0) + DataLen(Tail(o))
Has(o, x) == \E i \in 1..Len(o) : o[i][1] = x
LastIs(o, x) == o # <<>> /\ o[Len(o)][1] = x
ProjOf(o) ==
  LET done == Has(o, "T")
      tl == IF done THEN "final" ELSE IF ~Has(o, "H") THEN "empty" ELSE IF LastIs(o, "S") THEN "sync"
            ELSE IF LastIs(o, "H") THEN "empty" ELSE "mid"
      \* more than one final block or trailer: not a gzip file any more
      nT == Cardinality({i \in 1..Len(o) : o[i][1] = "T"})
      \* a second final block, or (gzip, where more members may follow) bytes after the trailer
      \* that are no member header: not a valid file any more; a zlib reader stops at the trailer
      bad == Cardinality({i \in 1..Len(o) : o[i][1] = "F"}) > 1 \/ (Variant = "gzip" /\ nT > 1)
  IN [st |-> IF bad THEN "corrupt" ELSE IF done THEN "done" ELSE "more", len |-> DataLen(o), ok |-> TRUE, maxd |-> 0,
      tail |-> tl, trail |-> IF nT > 1 THEN 4 * (nT - 1) ELSE 0, hdr |-> Has(o, "H"), trl |-> done]
DecOf(o) == LET r == ProjOf(o) IN [st |-> r.st, len |-> r.len, ok |-> r.st # "corrupt", hdr |-> r.hdr]

\* sizes of the items (the contract speaks of bytes: "a repeated Close of a zlib Writer emits 0 or 4")
ItemBytes(it) == CASE it[1] = "h" -> 2 [] it[1] = "H" -> 4 [] it[1] = "D" -> it[2] + 1 [] it[1] = "S" -> 5
                   [] it[1] = "F" -> 5 [] it[1] = "T" -> (IF Variant = "gzip" THEN 8 ELSE 4)
RECURSIVE Bytes(_)
Bytes(o) == IF o = <<>> THEN 0 ELSE ItemBytes(Head(o)) + Bytes(Tail(o))
ErrClass(e) == IF e = "nil" THEN "nil" ELSE IF e = "dst" THEN "dst" ELSE IF e = "panic" THEN "panic" ELSE "other"

Event(name, n, ret, e, s) ==
  [ev |-> name, n |-> n, ret |-> ret, err |-> ErrClass(e), panic |-> IF s.panicked THEN "panic" ELSE "",
   calls |-> s.calls - calls, bytes |-> Bytes(s.out) - Bytes(out), down |-> s.down, after |-> s.after - after,
   ref |-> ProjOf(s.out), std |-> DecOf(s.out), fg |-> DecOf(s.out)]

Commit(s) ==
  /\ wroteHeader' = s.wroteHeader /\ closed' = s.closed /\ err' = s.err /\ comp' = s.comp /\ pend' = s.pend
  /\ out' = s.out /\ calls' = s.calls /\ down' = s.down /\ after' = s.after /\ panicked' = s.panicked
  /\ UNCHANGED <<badHdr, failAt>>
Judge(ev) == C!Call(ev) /\ mviol' = mviol \cup C!Failed(ev)

Write == \E n \in Sizes : \E k \in {0, pend + n} :
           LET r == IF Variant = "gzip" THEN GzWrite(St, n, k) ELSE ZWrite(St, n, k) IN Commit(r[1]) /\ Judge(Event("Write", n, r[3], r[2], r[1]))
Flush == LET r == IF Variant = "gzip" THEN GzFlush(St) ELSE ZFlush(St) IN Commit(r[1]) /\ Judge(Event("Flush", 0, 0, r[2], r[1]))
Close == LET r == IF Variant = "gzip" THEN GzClose(St) ELSE ZClose(St) IN Commit(r[1]) /\ Judge(Event("Close", 0, 0, r[2], r[1]))
\* Reset(w): a new destination; everything but the level and the compressor is forgotten, the
\* header fields are back to their defaults (so they can be encoded again)
Reset ==
  /\ wroteHeader' = FALSE /\ closed' = FALSE /\ err' = "nil" /\ pend' = 0 /\ out' = <<>>
  /\ comp' = IF comp = "none" THEN "none" ELSE "open"
  /\ calls' = 0 /\ down' = FALSE /\ after' = 0 /\ failAt' \in FailAts /\ badHdr' = FALSE
  /\ UNCHANGED panicked
  /\ C!Reset([ev |-> "Reset"]) /\ UNCHANGED mviol

Next == /\ nops < MaxOps /\ ~panicked /\ nops' = nops + 1
        /\ (Write \/ Flush \/ Close \/ Reset)
Spec == Init /\ [][Next]_<<gvars, mvars, mviol>>

Refines == mviol = {}
TypeOK == comp \in {"none", "open", "closed", "failed"} /\ err \in {"nil", "dst", "hdr", "flate"}
=============================================================================
