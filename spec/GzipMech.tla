------------------------------ MODULE GzipMech ------------------------------
(***************************************************************************)
(* Implementation-shaped model of the gzip Reader (compress/gzip/ungzip.go *)
(* on top of the flate Reader): member header, DEFLATE body, trailer       *)
(* check, and - in multistream mode - the search for another member;       *)
(* Multistream(false) with Reset on the same buffered source reads member  *)
(* by member.  The file is a sequence of items                             *)
(*     H      a member header                                              *)
(*     B(n)   a DEFLATE body that decodes to n payload units               *)
(*     T(c,z) a trailer: c = its CRC-32 matches the body, z = its ISIZE     *)
(*            field.  ISIZE is the length of the body modulo 2^32 (RFC     *)
(*            1952); the model counts in units and wraps at SizeMod, so    *)
(*            that bodies at and beyond the modulus are within the bounds  *)
(*     X      a byte that is not the start of a gzip header (garbage)      *)
(* possibly cut short after any item (cut = number of items present; a     *)
(* cut inside a member is what C07 calls "cut short").  TLC enumerates     *)
(* every file within the bounds, both reading modes, and checks the        *)
(* container properties C07 / C08 / C05 of the design.                     *)
(***************************************************************************)
EXTENDS Integers, Sequences, FiniteSets, TLC

CONSTANTS MaxMembers,    \* members per file
          Payloads,      \* payload sizes (units)
          MaxTrail,      \* garbage items after the last member
          SizeMod,       \* the modulus of the trailer's length field, in units (2^32 bytes in reality)
          DevSizeNoWrap  \* deviation: the reader compares ISIZE with a counter that does not wrap

VARIABLES file,      \* the complete file (sequence of items)
          cut,       \* number of items the source really holds
          multi,     \* multistream mode
          pos,       \* items consumed from the source
          phase,     \* "start" | "body" | "between" | "done"
          given,     \* payload units handed out in total
          cur,       \* payload units handed out for the current member
          err,       \* "nil" | "eof" | "uxeof" | "checksum" | "header"
          members    \* members completely read (trailer verified)
vars == <<file, cut, multi, pos, phase, given, cur, err, members>>

H      == [k |-> "H"]
B(n)   == [k |-> "B", n |-> n]
T(c, z) == [k |-> "T", crc |-> c, sz |-> z]
X      == [k |-> "X"]

\* a member with a matching trailer, with a wrong CRC, or with a wrong length field
Member(n, v) == <<H, B(n), CASE v = "ok"  -> T(TRUE, n % SizeMod)
                             [] v = "crc" -> T(FALSE, n % SizeMod)
                             [] v = "len" -> T(TRUE, (n + 1) % SizeMod)>>
RECURSIVE Files(_)
Files(m) == IF m = 0 THEN {<<>>}
            ELSE { f \o Member(n, v) : f \in Files(m - 1), n \in Payloads, v \in {"ok", "crc", "len"} }
Trails == { [i \in 1..t |-> X] : t \in 0..MaxTrail }
AllFiles == { f \o t : f \in UNION { Files(m) : m \in 1..MaxMembers }, t \in Trails }

Have(i) == i <= cut                         \* item i has arrived
Item(i) == file[i]

Init ==
  /\ file \in AllFiles
  /\ cut \in 0..Len(file)
  /\ multi \in BOOLEAN
  /\ pos = 0 /\ phase = "start" /\ given = 0 /\ cur = 0 /\ err = "nil" /\ members = 0

Fail(e) == err' = e /\ phase' = "done"

\* the Reader's trailer check: CRC, and the length it counted, reduced as the field is
Counted(n) == IF DevSizeNoWrap THEN n ELSE n % SizeMod
Matches(t, n) == t.crc /\ t.sz = Counted(n)

\* NewReader / Reset: read a member header
ReadHeader ==
  /\ phase = "start" /\ err = "nil"
  /\ IF ~Have(pos + 1)
       THEN /\ Fail(IF pos = 0 \/ members > 0 THEN (IF cut = pos THEN "eof" ELSE "uxeof") ELSE "uxeof")
            /\ UNCHANGED <<pos, given, cur, members>>
     ELSE IF Item(pos + 1).k # "H"
       THEN Fail("header") /\ pos' = pos + 1 /\ UNCHANGED <<given, cur, members>>   \* the bytes looked at are consumed
     ELSE pos' = pos + 1 /\ phase' = "body" /\ cur' = 0 /\ UNCHANGED <<err, given, members>>
  /\ UNCHANGED <<file, cut, multi>>

\* Read: hand out the body, then verify the trailer
ReadBody ==
  /\ phase = "body" /\ err = "nil"
  /\ IF ~Have(pos + 1) THEN Fail("uxeof") /\ UNCHANGED <<pos, given, cur, members>>
     ELSE LET b == Item(pos + 1) IN
          IF cur < b.n
            THEN given' = given + 1 /\ cur' = cur + 1 /\ UNCHANGED <<pos, phase, err, members>>   \* one unit per Read
          ELSE IF ~Have(pos + 2) THEN Fail("uxeof") /\ pos' = pos + 1 /\ UNCHANGED <<given, cur, members>>
          ELSE IF ~Matches(Item(pos + 2), cur) THEN Fail("checksum") /\ pos' = pos + 2 /\ UNCHANGED <<given, cur, members>>
          ELSE /\ pos' = pos + 2 /\ members' = members + 1
               /\ IF multi THEN phase' = "between" /\ UNCHANGED err
                  ELSE Fail("eof")                         \* one member per Reset
               /\ UNCHANGED <<given, cur>>
  /\ UNCHANGED <<file, cut, multi>>

\* multistream: is there another member?
NextMember ==
  /\ phase = "between" /\ err = "nil"
  /\ IF ~Have(pos + 1) THEN Fail("eof") /\ UNCHANGED pos            \* clean end of the file
     ELSE IF Item(pos + 1).k = "H" THEN pos' = pos + 1 /\ phase' = "body" /\ UNCHANGED err
     ELSE Fail("header") /\ pos' = pos + 1
  /\ cur' = 0 /\ UNCHANGED <<file, cut, multi, given, members>>

\* member-by-member mode: Reset on the same source after io.EOF
ResetSame ==
  /\ ~multi /\ phase = "done" /\ err = "eof" /\ members > 0 /\ Have(pos + 1)
  /\ phase' = "start" /\ err' = "nil"
  /\ UNCHANGED <<file, cut, multi, pos, given, cur, members>>

Next == ReadHeader \/ ReadBody \/ NextMember \/ ResetSame
Spec == Init /\ [][Next]_vars

-----------------------------------------------------------------------------
RECURSIVE PayloadUpTo(_, _)
PayloadUpTo(f, i) == IF i = 0 THEN 0 ELSE PayloadUpTo(f, i - 1) + (IF f[i].k = "B" THEN f[i].n ELSE 0)
MemberEnds(f) == { i \in 1..Len(f) : f[i].k = "T" }
CutInsideMember == cut < Len(file) /\ cut \notin (MemberEnds(file) \cup {0}) /\ \A i \in 1..cut : file[i].k # "X"
\* what RFC 1952 calls a matching trailer (independent of the Reader's arithmetic)
OkT(j) == file[j].crc /\ file[j].sz = file[j - 1].n % SizeMod
AllOKUpTo(i) == \A j \in 1..i : file[j].k = "T" => OkT(j)

\* C07: io.EOF only if every trailer read so far matched
C07_NoSilentCorruption == err = "eof" => AllOKUpTo(pos)
\* C07: a file cut short inside a member ends in unexpected EOF after a prefix of the payload
LastEndBefore(c) == LET E == { i \in MemberEnds(file) : i <= c } IN IF E = {} THEN 0 ELSE CHOOSE i \in E : \A j \in E : j <= i
InCutMember == multi \/ pos > LastEndBefore(cut)      \* the reader has entered the member that is cut
C07_Cut == (phase = "done" /\ CutInsideMember /\ AllOKUpTo(cut) /\ InCutMember) => err = "uxeof"
C07_Prefix == given <= PayloadUpTo(file, Len(file))
\* C08: default mode returns the concatenation of all payloads, then io.EOF
C08_Concat == (multi /\ err = "eof") => given = PayloadUpTo(file, cut) /\ pos = cut
\* C08 / C05: member by member, the source stands exactly after the member's trailer, trailing data unread
C08_MemberEnd == (~multi /\ err = "eof" /\ members > 0) => (pos \in MemberEnds(file) /\ given = PayloadUpTo(file, pos))
\* C06: a complete file whose trailers all match is read to io.EOF, whatever the members' lengths
C06_ValidAccepted == (phase = "done" /\ multi /\ cut = Len(file) /\ AllOKUpTo(Len(file)) /\ \A i \in 1..Len(file) : file[i].k # "X")
                        => err = "eof" /\ given = PayloadUpTo(file, Len(file))
TypeOK == pos <= cut /\ cut <= Len(file) /\ members <= MaxMembers
=============================================================================
