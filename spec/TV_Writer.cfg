SPECIFICATION TSpec
CONSTANTS
  StdQuirks = FALSE
INVARIANTS Report
CHECK_DEADLOCK FALSE
