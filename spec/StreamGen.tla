------------------------------ MODULE StreamGen ------------------------------
(***************************************************************************)
(* RFC 1951 at block level: generator of stream descriptors for the        *)
(* Reader checks (C02 C03 C13 C18).  A stream is a sequence of blocks;     *)
(* each block is described by its type, the shape of its Huffman codes,    *)
(* the class of its tokens and header-encoding options; at most one fault  *)
(* is injected in one block.  The module states which descriptors are      *)
(* legal and what verdict a conforming inflater must reach; the harness's  *)
(* synthesiser turns a descriptor plus a seed into bits, and the predicted *)
(* verdict is cross-checked against compress/flate and the reference       *)
(* inflater before it is used (DESIGN R4).                                 *)
(***************************************************************************)
EXTENDS Integers, Sequences, FiniteSets, TLC, Json

CONSTANTS MaxBlocks,   \* blocks per stream
          Faulty       \* BOOLEAN: inject one fault

VARIABLES blocks, fault, stage, want, ptype, nblocks
vars == <<blocks, fault, stage, want, ptype, nblocks>>

LShapes == {"flat", "skew", "random", "freq"}
DShapes == {"flat", "skew", "random", "freq", "single", "none"}
TokCls  == {"empty", "lits", "near", "far", "long", "mixed"}

\* Two further degrees of freedom of the format that no common encoder uses:
\*   worstcl  the code-length code of a dynamic header need not be optimal: any complete
\*            code will do, also the one that spends 7 bits on every length value used.
\*            Without run symbols and with HLIT/HDIST at their maximum the header then
\*            reaches the format's limit of 17 + 19*3 + 316*7 bits = 286 bytes.
\*   alt258   length 258 has two spellings that zlib and compress/flate both decode:
\*            symbol 285, or symbol 284 with extra bits 31 (227 + 31).
\*   zerosplit  a run of zero code lengths may be written partly as "repeat the previous length"
\*            (symbol 16) directly behind a 17/18 item or an explicit zero: the previous length
\*            IS zero.  Encoders write zero runs with 17/18 only.
\*   dup      a block may be, bit for bit, the block one or two places earlier once more (same
\*            header, same tokens) - e.g. with a block of another type in between
Blk(t, ls, ds, tk, rp, cr, fh, mh, sy, wc, a8) ==
  [type |-> t, lshape |-> ls, dshape |-> ds, toks |-> tk, repeat |-> rp, cross |-> cr,
   fullhclen |-> fh, maxh |-> mh, sync |-> sy, worstcl |-> wc, alt258 |-> a8, zerosplit |-> FALSE, dup |-> 0]

HasMatches(tk) == tk \notin {"empty", "lits"}
Stored == { Blk("stored", "flat", "flat", tk, FALSE, FALSE, FALSE, FALSE, sy, FALSE, FALSE) : tk \in {"empty", "lits"}, sy \in BOOLEAN }
Fixed  == { b \in { Blk("fixed", "flat", "flat", tk, FALSE, FALSE, FALSE, FALSE, sy, FALSE, a8) :
                      tk \in TokCls, sy \in BOOLEAN, a8 \in BOOLEAN } :
              b.alt258 => HasMatches(b.toks) }
Dyn    == { b \in { Blk("dyn", ls, ds, tk, rp, cr, fh, mh, sy, wc, a8) :
                      ls \in LShapes, ds \in DShapes, tk \in TokCls, rp \in BOOLEAN, cr \in BOOLEAN,
                      fh \in BOOLEAN, mh \in BOOLEAN, sy \in BOOLEAN, wc \in BOOLEAN, a8 \in BOOLEAN } :
              /\ (b.cross => b.repeat)                         \* a run can only cross the boundary if runs are used
              /\ (b.dshape = "none" => b.toks \in {"empty", "lits"})    \* no distance codes: no matches
              /\ (b.alt258 => HasMatches(b.toks)) }

\* The longest header the descriptor space can express (used by the harness to aim
\* delivery schedules at the header staging buffer of the Reader).
MaxHeader(b) == b.type = "dyn" /\ b.worstcl /\ ~b.repeat /\ b.maxh
\* (the two latest dimensions are added on top of the product above)
Dyn2   == { [b EXCEPT !.zerosplit = z] : b \in { d \in Dyn : d.repeat }, z \in {TRUE} } \cup Dyn
Blocks == Stored \cup Fixed \cup Dyn2
DupOf(b, d) == [b EXCEPT !.dup = d]

\* fault kind -> block types it can be injected in
FaultType ==
  [ distBeyondOutput |-> {"fixed", "dyn"}, unassignedCode |-> {"dyn"}, staleDist |-> {"dyn"},
    oversubscribed |-> {"dyn"}, incompleteCode |-> {"dyn"}, missingEOB |-> {"dyn"},
    repeatNoPrev |-> {"dyn"}, runPastCount |-> {"dyn"}, crossRunEdge |-> {"dyn"},
    badStoredNLEN |-> {"stored"}, reservedType |-> {"stored", "fixed", "dyn"},
    lenSym286 |-> {"fixed"}, lenSym287 |-> {"fixed"}, distSym30 |-> {"fixed"}, distSym31 |-> {"fixed"},
    hlitTooBig |-> {"dyn"}, hdistTooBig |-> {"dyn"} ]
FaultKinds == DOMAIN FaultType
NoFault == [kind |-> "none", block |-> 0]

\* What a conforming inflater must conclude.
Verdict ==
  IF fault.kind \in {"none", "crossRunEdge"} THEN "eof"         \* crossRunEdge is a legal edge case
  ELSE "reject"                                                 \* corrupt, or unexpected EOF if the input ends first

\* The kind of fault (if any) and the number of blocks are chosen first; the
\* faulty block is the last one (nothing after a fault is ever looked at), and
\* the blocks are then chosen type first, so that stored and fixed blocks are
\* as likely as the much more numerous dynamic variants under -simulate.
Init ==
  /\ blocks = <<>> /\ fault = NoFault /\ stage = "type" /\ ptype = "none"
  /\ want \in (IF Faulty THEN FaultKinds ELSE {"none"})
  /\ nblocks \in (IF want = "staleDist" THEN 2..MaxBlocks ELSE 1..MaxBlocks)

Last == Len(blocks) = nblocks - 1
TypeAllowed(t) ==
  /\ (Last /\ want # "none" => t \in FaultType[want])
  /\ (want = "staleDist" /\ Len(blocks) = nblocks - 2 => t = "dyn")

PickType == /\ stage = "type" /\ Len(blocks) < nblocks
            /\ \E t \in {"stored", "fixed", "dyn"} : TypeAllowed(t) /\ ptype' = t
            /\ stage' = "block" /\ UNCHANGED <<blocks, fault, want, nblocks>>
\* (RandomElement: under -simulate every behaviour is a random draw anyway; enumerating the
\* tens of thousands of successors of this step only to pick one made generation slow)
ByType(t) == { b \in Blocks : b.type = t }
DynBlocks == ByType("dyn")   FixedBlocks == ByType("fixed")   StoredBlocks == ByType("stored")
OfType(t) == CASE t = "dyn" -> DynBlocks [] t = "fixed" -> FixedBlocks [] OTHER -> StoredBlocks
PickBlock == /\ stage = "block"
             /\ LET S == IF Last /\ want = "distBeyondOutput" THEN { b \in OfType(ptype) : b.dshape # "none" } ELSE OfType(ptype)
                    b == RandomElement(S)
                    \* a valid Huffman block may repeat the block one or two places earlier (of the same type)
                    D == { d \in 0..2 : d > 0 => /\ Len(blocks) >= d /\ blocks[Len(blocks) + 1 - d].type = b.type
                                                  /\ b.type # "stored" /\ ~(Last /\ want # "none") }
                IN blocks' = Append(blocks, DupOf(b, RandomElement(D)))
             /\ stage' = "type" /\ UNCHANGED <<fault, want, ptype, nblocks>>
Finish   == /\ stage = "type" /\ Len(blocks) = nblocks
            /\ fault' = IF want = "none" THEN NoFault ELSE [kind |-> want, block |-> nblocks - 1]
            /\ stage' = "done" /\ UNCHANGED <<blocks, want, ptype, nblocks>>
Next == PickType \/ PickBlock \/ Finish
Spec == Init /\ [][Next]_vars

PrintDesc == stage = "done" =>
  PrintT("BEH " \o ToJson([blocks |-> blocks, fault |-> fault, verdict |-> Verdict]))

\* sanity of the alphabet
TypeOK == \A i \in 1..Len(blocks) : DupOf(blocks[i], 0) \in Blocks
=============================================================================
