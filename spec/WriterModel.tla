------------------------------ MODULE WriterModel ------------------------------
(***************************************************************************)
(* The ideal Writer: WriterContract closed under an environment.  Every    *)
(* API call is answered by some event that violates no contract clause     *)
(* (Failed(e) = {}); the environment chooses the operation, the size of a   *)
(* Write and whether the destination fails during the call.  TLC checks    *)
(* that the clauses compose (some answer always exists, the user-level     *)
(* properties follow) and, with the history variable, enumerates the call  *)
(* histories that the harness replays against the real code (GEN configs). *)
(***************************************************************************)
EXTENDS WriterContract, Json

CONSTANTS Kinds,      \* subset of {"flate","gzip","zlib"}
          Sizes,      \* abstract Write sizes (0 = empty write)
          MaxLen,     \* maximal number of API calls in a history
          MaxResets,  \* maximal number of Reset calls in a history
          Faults,     \* BOOLEAN: may the destination fail?
          OpSet       \* subset of {"Write","Flush","Close","Reset"}

VARIABLES hist,       \* the call history (observation only; hidden by the VIEW in MC configs)
          lastOp, lastErr

mvars == <<cvars, hist, lastOp, lastErr>>

Proj(st, n, tl, ok) == [st |-> st, len |-> n, ok |-> ok, maxd |-> 0, tail |-> tl, trail |-> 0,
                        hdr |-> TRUE, trl |-> TRUE]
Dec(st, n)          == [st |-> st, len |-> n, ok |-> TRUE, hdr |-> TRUE]

\* Candidate answers to a call; the contract filters them.
Shapes == { <<"more", "empty">>, <<"more", "mid">>, <<"more", "sync">>, <<"done", "final">> }
Answers(op, n, fails) ==
  { [ev |-> op, n |-> n, ret |-> r, err |-> er, panic |-> "", calls |-> cb[1], bytes |-> cb[2],
     down |-> (downSeen \/ fails), after |-> 0,
     ref |-> Proj(sh[1], plen, sh[2], TRUE), std |-> Dec(sh[1], plen), fg |-> Dec(sh[1], plen)] :
      r \in {0, n}, er \in {"nil", "dst", "other"}, cb \in {<<0, 0>>, <<1, 4>>},
      sh \in Shapes, plen \in {dec, acc, acc + n} }

Good(op, n, fails) == { e \in Answers(op, n, fails) : (fails => e.calls = 1) /\ Failed(e) = {} }

MInit ==
  /\ CInit /\ hist = <<>> /\ lastOp = "none" /\ lastErr = "nil"

Start ==
  /\ mode = "none"
  /\ \E k \in Kinds :
       Begin([kind |-> k, level |-> 1, window |-> 32768, accel |-> TRUE, period |-> 0])
  /\ UNCHANGED <<hist, lastOp, lastErr>>

DoCall(op, n, fails) ==
  /\ mode \in {"open", "closed", "failed"}
  /\ Len(hist) < MaxLen
  /\ \E e \in Good(op, n, fails) :
       /\ Call(e)
       /\ lastErr' = e.err
  /\ lastOp' = op
  /\ hist' = Append(hist, IF op = "Write" THEN <<"W", n>> ELSE <<SubSeq(op, 1, 1), 0>>)

DoReset ==
  /\ mode \in {"open", "closed", "failed"}
  /\ Len(hist) < MaxLen
  /\ Len(SelectSeq(hist, LAMBDA h : h[1] = "R")) < MaxResets
  /\ Reset([ev |-> "Reset"])
  /\ lastOp' = "Reset" /\ lastErr' = "nil"
  /\ hist' = Append(hist, <<"R", 0>>)

MNext ==
  \/ Start
  \/ \E f \in (IF Faults THEN BOOLEAN ELSE {FALSE}) :
       \/ "Write" \in OpSet /\ \E n \in Sizes : DoCall("Write", n, f /\ ~downSeen)
       \/ "Flush" \in OpSet /\ DoCall("Flush", 0, f /\ ~downSeen)
       \/ "Close" \in OpSet /\ DoCall("Close", 0, f /\ ~downSeen)
  \/ "Reset" \in OpSet /\ DoReset

MSpec == MInit /\ [][MNext]_mvars

-----------------------------------------------------------------------------
(* The clauses never contradict each other: whatever the state, every call  *)
(* has an answer the contract accepts (otherwise no implementation could    *)
(* conform and trace validation would raise false alarms).                  *)
Answerable ==
  mode \in {"open", "closed", "failed"} =>
    \A op \in {"Write", "Flush", "Close"} : \A n \in (IF op = "Write" THEN Sizes ELSE {0}) :
      /\ Good(op, n, FALSE) # {}
      /\ (~downSeen => Good(op, n, TRUE) # {})

(* User-level properties as consequences of the clauses. *)
TypeOK ==
  /\ mode \in {"none", "open", "closed", "failed"}
  /\ dec <= acc /\ tail \in {"empty", "mid", "sync", "final"}
C01_RoundTrip   == mode = "closed" => dec = acc /\ tail = "final"
C10_FlushPoint  == (mode = "open" /\ lastOp = "Flush" /\ lastErr = "nil") => dec = acc /\ tail = "sync"
C14_Reported    == (mode = "failed" /\ lastOp \in {"Write", "Flush", "Close"}) =>
                     lastErr # "nil" \/ (StdQuirks /\ closeFailed)
C14_Converse    == (mode = "closed") => ~downSeen \/ kind = "zlib"
C16_CloseIdem   == (mode = "closed" /\ lastOp = "Close" /\ ~cerr) => lastErr = "nil"
C16_FinalStays  == tail = "final" => mode \in {"closed", "failed"}
\* a Writer whose header cannot be encoded never reports success and never counts as closed
C16_HeaderError == kind = BadHdr => /\ mode # "closed"
                                    /\ (lastOp \in {"Write", "Flush", "Close"} => lastErr # "nil")
\* within one stream the decodable prefix only grows and a closed Writer stays closed
C01_Monotone    == [][lastOp' # "Reset" /\ mode # "none" => dec' >= dec]_mvars
C16_Absorbing   == [][(mode = "closed" /\ lastOp' # "Reset") => mode' \in {"closed", "failed"}]_mvars
C12_ResetFresh  == [][lastOp' = "Reset" /\ hist' # hist =>
                        /\ mode' = "open" /\ acc' = 0 /\ dec' = 0 /\ tail' = "empty"
                        /\ emitted' = 0 /\ ~downSeen' /\ ~cerr' /\ flushes' = 0]_mvars

\* MC configs hide the history; GEN configs print it.
View == <<cvars, lastOp, lastErr, Len(hist)>>
GenView == <<hist, mode = "none">>
Maximal == Len(hist) = MaxLen
PrintHist == Maximal => PrintT("BEH " \o ToJson(hist))
=============================================================================
