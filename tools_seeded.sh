#!/bin/bash
# usage: tools_seeded.sh <seeded-name> [verify|detect|both] [extra property ids to run]
# verify: in a scratch worktree, confirm that the seeded change builds, passes the
#         repository's tests, and that its demonstration fails with it and passes without.
# detect: apply the change to /repo's working tree, run the quick check of its
#         property (and any extra ones), restore /repo.  Results go to seeded/<name>/result.json
set -u
export GOFLAGS=-mod=mod GOPROXY=off GOSUMDB=off GOTOOLCHAIN=local
name="$1"; mode="${2:-both}"; shift; shift
dir=/verif/seeded/$name
prop=$(python3 -c "import json;print(json.load(open('$dir/meta.json'))['property'])")
pkg=$(python3 -c "import json;print(json.load(open('$dir/meta.json')).get('demo_pkg_dir','compress/flate'))")
res="{}"
if [ "$mode" != "detect" ]; then
  sw=/tmp/seedwt-$$
  git -C /repo worktree add -q $sw HEAD || exit 2
  cd $sw
  git apply $dir/patch.diff || { echo "patch does not apply"; git -C /repo worktree remove --force $sw; exit 2; }
  b=false; t=false; df=false; dp=false
  go build ./... 2>/dev/null && b=true
  go test -vet=off -count=1 ./... >/tmp/seed-tests.$$ 2>&1 && t=true
  cp $dir/demo_test.go.txt $pkg/zz_seeded_demo_test.go
  pat="^($(grep -o '^func Test[A-Za-z0-9_]*' $dir/demo_test.go.txt | sed 's/^func //' | paste -sd'|'))\$"
  # the demonstration may need a forced acceleration level or the race detector: it "fails with the change"
  # if it fails in any of these modes, and "passes without" only if it passes in all of them
  rundemo() {
    local ok=0
    go test -tags verif -vet=off -count=1 -run "$pat" ./$pkg/ >/tmp/seed-demo$1a.$$ 2>&1 || ok=1
    FASTGO_VERIF_ARCHLEVEL=0 go test -tags verif -vet=off -count=1 -run "$pat" ./$pkg/ >/tmp/seed-demo$1b.$$ 2>&1 || ok=1
    FASTGO_VERIF_ARCHLEVEL=1 go test -tags verif -vet=off -count=1 -run "$pat" ./$pkg/ >/tmp/seed-demo$1c.$$ 2>&1 || ok=1
    go test -tags noasmtest -vet=off -count=1 -run "$pat" ./$pkg/ >/tmp/seed-demo$1e.$$ 2>&1 || ok=1
    if [ "$prop" = "C17" ]; then go test -race -tags verif -vet=off -count=1 -run "$pat" ./$pkg/ >/tmp/seed-demo$1d.$$ 2>&1 || ok=1; fi
    return $ok
  }
  rundemo 1 || df=true
  git apply -R $dir/patch.diff
  rundemo 2 && dp=true
  cd /; git -C /repo worktree remove --force $sw
  echo "$name verify: build=$b existing_tests_pass=$t demo_fails_with_change=$df demo_passes_without=$dp"
  [ "$df" = false ] && tail -3 /tmp/seed-demo1a.$$
  [ "$dp" = false ] && tail -3 /tmp/seed-demo2*.$$
  res=$(python3 -c "import json;print(json.dumps({'build':'$b'=='true','existing_tests_pass':'$t'=='true','demo_fails_with_change':'$df'=='true','demo_passes_without':'$dp'=='true'}))")
  rm -f /tmp/seed-*.$$
fi
det="{}"
if [ "$mode" != "verify" ]; then
  if [ -n "$(git -C /repo status --porcelain)" ]; then echo "/repo not clean"; exit 2; fi
  git -C /repo apply $dir/patch.diff || exit 2
  det="{"
  for p in $prop "$@"; do
    out=$(cd /verif && timeout 1800 ./check $p 2>/dev/null); rc=$?
    nv=$(echo "$out" | grep -c '^VIOLATION')
    cl=$(echo "$out" | grep '^VIOLATION' | grep -o 'clauses=[^ ]*' | sort | uniq -c | sort -rn | head -3 | tr '\n' ';')
    echo "$name detect: check $p exit=$rc violations=$nv $cl"
    det="$det\"$p\": {\"exit\": $rc, \"violations\": $nv},"
  done
  det="${det%,}}"
  git -C /repo checkout -- .
  git -C /repo status --porcelain | head -3
fi
python3 - <<PY
import json,os
p='$dir/result.json'
d=json.load(open(p)) if os.path.exists(p) else {}
v=json.loads('''$res'''); t=json.loads('''$det''')
if v: d['verified']=v
if t: d.setdefault('detected',{}).update(t)
json.dump(d,open(p,'w'),indent=1)
PY
