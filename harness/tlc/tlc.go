// Package tlc runs the TLC model checker on a specification under a time
// limit, in a scratch copy of the specification directory, and extracts the
// numbers and printed values the harness needs.
package tlc

import (
	"bytes"
	"context"
	"fmt"
	"io"
	"os"
	"os/exec"
	"path/filepath"
	"regexp"
	"strconv"
	"strings"
	"time"
)

// Run describes one TLC invocation.
type Run struct {
	SpecDir  string            // directory holding the .tla / .cfg files
	Module   string            // root module (without .tla)
	Cfg      string            // config file name inside SpecDir
	Workers  int               // 0 = 1
	Timeout  time.Duration     // 0 = 5 minutes
	Files    map[string]string // extra files: name in scratch dir -> source path
	Inline   map[string]string // extra files: name in scratch dir -> content
	Simulate string            // e.g. "num=500"; empty = exhaustive
	Depth    int               // -depth for simulation
	Seed     int64             // -seed for simulation
	Coverage bool              // -coverage 1
	DFS      bool              // depth-first queue (StateDeque)
	Scratch  string            // parent for the scratch directory ("" = os.TempDir())
	KeepDir  bool
}

// Result is what came back.
type Result struct {
	Stdout    string
	Generated int64
	Distinct  int64
	Diameter  int
	Printed   []string // lines printed by PrintT / Print
	ExitCode  int
	TimedOut  bool
	Violated  string // name of a violated invariant / property, "" if none
	Deadlock  bool
	EvalError string // TLC runtime / parse error text, "" if none
	Wall      time.Duration
	Dir       string
	ZeroCov   []string // with Coverage: action/expression lines whose count is 0
	ActionCov map[string]int64
}

var (
	reStates   = regexp.MustCompile(`(\d+) states generated, (\d+) distinct states found`)
	reDiameter = regexp.MustCompile(`The depth of the complete state graph search is (\d+)`)
	reInv      = regexp.MustCompile(`Invariant (\S+) is violated`)
	reProp     = regexp.MustCompile(`(?:Action|Temporal) propert(?:y|ies) (\S+)? ?(?:was|were) violated`)
	reSim      = regexp.MustCompile(`The number of states generated: (\d+)`)
	reAct      = regexp.MustCompile(`^<(\w+) line \d+, col \d+ to line \d+, col \d+ of module (\w+)>: (\d+):(\d+)`)
)

func copyFile(dst, src string) error {
	in, err := os.Open(src)
	if err != nil {
		return err
	}
	defer in.Close()
	out, err := os.Create(dst)
	if err != nil {
		return err
	}
	if _, err := io.Copy(out, in); err != nil {
		out.Close()
		return err
	}
	return out.Close()
}

// Exec runs TLC. A non-nil error means the tooling itself failed to run
// (missing file, cannot start); model-level outcomes are in Result.
func Exec(r Run) (*Result, error) {
	if r.Workers <= 0 {
		r.Workers = 1
	}
	if r.Timeout == 0 {
		r.Timeout = 5 * time.Minute
	}
	dir, err := os.MkdirTemp(r.Scratch, "tlc-")
	if err != nil {
		return nil, err
	}
	if !r.KeepDir {
		defer os.RemoveAll(dir)
	}
	ents, err := os.ReadDir(r.SpecDir)
	if err != nil {
		return nil, err
	}
	for _, e := range ents {
		n := e.Name()
		if e.IsDir() || !(strings.HasSuffix(n, ".tla") || strings.HasSuffix(n, ".cfg")) {
			continue
		}
		if err := copyFile(filepath.Join(dir, n), filepath.Join(r.SpecDir, n)); err != nil {
			return nil, err
		}
	}
	for n, src := range r.Files {
		if err := copyFile(filepath.Join(dir, n), src); err != nil {
			return nil, err
		}
	}
	for n, c := range r.Inline {
		if err := os.WriteFile(filepath.Join(dir, n), []byte(c), 0o644); err != nil {
			return nil, err
		}
	}
	args := []string{"-XX:+UseParallelGC", "-Xss64m"}
	if r.DFS {
		args = append(args, "-Dtlc2.tool.queue.IStateQueue=StateDeque")
	}
	args = append(args, "-cp", "/opt/veriftools/tla/tla2tools.jar:/opt/veriftools/tla/CommunityModules-deps.jar",
		"tlc2.TLC", "-metadir", filepath.Join(dir, "meta"), "-workers", strconv.Itoa(r.Workers),
		"-config", r.Cfg)
	if r.Simulate != "" {
		args = append(args, "-simulate", r.Simulate)
		if r.Depth > 0 {
			args = append(args, "-depth", strconv.Itoa(r.Depth))
		}
		args = append(args, "-seed", strconv.FormatInt(r.Seed, 10))
	}
	if r.Coverage {
		args = append(args, "-coverage", "1")
	}
	args = append(args, r.Module+".tla")
	ctx, cancel := context.WithTimeout(context.Background(), r.Timeout)
	defer cancel()
	cmd := exec.CommandContext(ctx, "java", args...)
	cmd.Dir = dir
	var out bytes.Buffer
	cmd.Stdout = &out
	cmd.Stderr = &out
	start := time.Now()
	runErr := cmd.Run()
	res := &Result{Stdout: out.String(), Wall: time.Since(start), Dir: dir, ActionCov: map[string]int64{}}
	if ctx.Err() == context.DeadlineExceeded {
		res.TimedOut = true
	}
	if ee, ok := runErr.(*exec.ExitError); ok {
		res.ExitCode = ee.ExitCode()
	} else if runErr != nil {
		return res, fmt.Errorf("cannot run TLC: %v", runErr)
	}
	res.parse()
	return res, nil
}

func (res *Result) parse() {
	lines := strings.Split(res.Stdout, "\n")
	inErr := false
	for _, ln := range lines {
		if m := reStates.FindStringSubmatch(ln); m != nil {
			res.Generated, _ = strconv.ParseInt(m[1], 10, 64)
			res.Distinct, _ = strconv.ParseInt(m[2], 10, 64)
		}
		if m := reSim.FindStringSubmatch(ln); m != nil && res.Generated == 0 {
			res.Generated, _ = strconv.ParseInt(m[1], 10, 64)
			res.Distinct = res.Generated
		}
		if m := reDiameter.FindStringSubmatch(ln); m != nil {
			res.Diameter, _ = strconv.Atoi(m[1])
		}
		if m := reInv.FindStringSubmatch(ln); m != nil && res.Violated == "" {
			res.Violated = m[1]
		}
		if strings.Contains(ln, "property") && strings.Contains(ln, "violated") && res.Violated == "" {
			if m := reProp.FindStringSubmatch(ln); m != nil {
				res.Violated = "property:" + m[1]
			} else {
				res.Violated = "property"
			}
		}
		if strings.Contains(ln, "Deadlock reached") {
			res.Deadlock = true
		}
		if strings.HasPrefix(ln, "Error:") && !strings.Contains(ln, "is violated") && !strings.Contains(ln, "Deadlock") &&
			!strings.Contains(ln, "behavior up to this point") && !strings.Contains(ln, "was violated") {
			if res.EvalError == "" {
				res.EvalError = ln
				inErr = true
				continue
			}
		}
		if inErr {
			if ln == "" || len(res.EvalError) > 1500 {
				inErr = false
			} else {
				res.EvalError += "\n" + ln
			}
		}
		if m := reAct.FindStringSubmatch(ln); m != nil {
			c, _ := strconv.ParseInt(m[4], 10, 64)
			res.ActionCov[m[2]+"!"+m[1]] += c
		}
		// PrintT output: a TLA+ value on its own line; the harness only prints
		// tuples and strings that start with one of these markers.
		t := strings.TrimSpace(ln)
		if strings.HasPrefix(t, "<<\"") || (len(t) >= 2 && t[0] == '"' && t[len(t)-1] == '"') {
			res.Printed = append(res.Printed, t)
		}
	}
	for k, v := range res.ActionCov {
		if v == 0 {
			res.ZeroCov = append(res.ZeroCov, k)
		}
	}
}

// Unquote turns a TLC-printed string value ("...", with \" and \\ escapes)
// back into its content.
func Unquote(s string) (string, bool) {
	s = strings.TrimSpace(s)
	if len(s) < 2 || s[0] != '"' || s[len(s)-1] != '"' {
		return "", false
	}
	body := s[1 : len(s)-1]
	var b strings.Builder
	for i := 0; i < len(body); i++ {
		if body[i] == '\\' && i+1 < len(body) {
			i++
			switch body[i] {
			case 'n':
				b.WriteByte('\n')
			case 't':
				b.WriteByte('\t')
			default:
				b.WriteByte(body[i])
			}
			continue
		}
		b.WriteByte(body[i])
	}
	return b.String(), true
}
