// Package refinflate is an independent, instrumented and deliberately
// permissive RFC 1951 inflater. It is written from the RFC, favours clarity
// over speed and records the block structure of the stream it decodes.
//
// "Permissive" means it is an upper bound on what a conforming decoder may
// accept: incomplete Huffman codes are accepted as long as no unassigned bit
// pattern is actually used. Truncated input is never an error (State "more").
package refinflate

const (
	DefectReservedType   = "reserved-block-type"     // BTYPE == 3
	DefectStoredLen      = "stored-len-mismatch"     // LEN != ^NLEN
	DefectOversubscribed = "oversubscribed-code"     // a code-length set with Kraft sum > 1 (any of the three trees)
	DefectUnassigned     = "unassigned-code"         // bits read match no code of an incomplete/empty tree
	DefectBadLenSym      = "invalid-length-symbol"   // litlen symbol 286 or 287 used (fixed tree) or HLIT > 286
	DefectBadDistSym     = "invalid-distance-symbol" // distance symbol 30 or 31 used, or HDIST > 30
	DefectDistTooFar     = "distance-beyond-output"  // distance > bytes available (dictionary + output so far)
	DefectRepeatNoPrev   = "repeat-without-previous" // code-length symbol 16 as the first length
	DefectRunPastCount   = "run-past-count"          // a 16/17/18 run extends beyond HLIT+HDIST+258 lengths
	DefectNoEOB          = "missing-end-of-block"    // dynamic block whose litlen symbol 256 has length 0
	DefectOutputLimit    = "output-limit"            // Options.MaxOut would be exceeded
)

// Block describes one completely decoded block.
type Block struct {
	Type     int     // 0 stored, 1 fixed, 2 dynamic
	Final    bool    // BFINAL
	StartBit int64   // bit offset of the block's first header bit (BFINAL) in the input
	EndBit   int64   // bit offset just after the block's last bit (after EOB, or after the last stored data byte)
	OutStart int     // output length when the block started
	OutLen   int     // bytes this block produced
	NLit     int     // literal tokens (stored bytes are not tokens)
	NMatch   int     // length/distance tokens
	Empty    bool    // a stored block with LEN == 0
	LitLens  []uint8 // dynamic blocks: the declared literal/length code lengths
	DistLens []uint8 // dynamic blocks: the declared distance code lengths
	HdrBits  int64   // dynamic blocks: bits from BFINAL up to the first token
}

// SyncPoint is recorded for every completed non-final empty stored block.
type SyncPoint struct {
	ByteEnd int // number of input bytes up to and including the empty stored block (it ends byte aligned)
	OutLen  int // output bytes decodable from exactly those input bytes
}

// Token is one decoded literal or match of a Huffman block.
type Token struct {
	Lit   int // 0..255 for a literal, -1 for a match
	Len   int // match length (3..258), 0 for literal
	Dist  int // match distance (1..32768), 0 for literal
	Pos   int // output position at which the token starts (not counting the dictionary)
	Block int // index into Blocks (the index the enclosing block has or will have)
}

// Result is everything Inflate learned about the input.
type Result struct {
	// State is "done" (a BFINAL=1 block was completely decoded), "more" (the
	// input ran out and nothing wrong was seen so far) or "corrupt".
	State string
	Out   []byte // all bytes produced before the end / the defect / the end of input
	// EndBit: State "done": bit position just after the final block. Otherwise
	// the bit position of the start of the item that could not be completed or
	// that was found defective. Items are: the 3 block header bits, the
	// LEN/NLEN pair, the next stored data byte, the 14 bit dynamic header, one
	// 3 bit code-length-code length, one code-length symbol with its extra
	// bits, one whole token (litlen symbol .. distance extra bits).
	EndBit  int64
	EndByte int     // State "done": (EndBit+7)/8; otherwise 0
	Trail   int     // State "done": len(data)-EndByte; otherwise 0
	MaxDist int     // largest match distance seen (0 if none)
	Blocks  []Block // completed blocks only
	Syncs   []SyncPoint
	// Tail is "final" when done; otherwise "empty" if len(data)==0, "sync" if
	// the input ended exactly (all bytes consumed) right after a completed
	// non-final empty stored block, and "mid" in every other case (including
	// every corrupt input).
	Tail string
	// CleanEnd: State "more" and the last completed block (or the start of the
	// stream) ended inside or at the end of the last input byte, i.e. fewer
	// than 8 bits follow the last block boundary. Those bits are regarded as
	// padding whatever their value; they can never produce output. (A reserved
	// BTYPE in them is still reported as corrupt.)
	CleanEnd bool
	Err      string // State "corrupt": one of the Defect* constants
	ErrOut   int    // len(Out) at the moment the defect was detected
	// Incomplete: some parsed Huffman code (code-length, litlen or distance)
	// was incomplete in a way compress/flate rejects at header time, i.e. it
	// had at least one code, Kraft sum < 1, and was not a single code of
	// length 1. (Empty trees and single 1-bit codes are tolerated by stdlib.)
	NoEOB      bool // LazyEOB: some dynamic block had no end-of-block code
	Incomplete bool
}

// Options configure Inflate.
type Options struct {
	Dict   []byte      // preset dictionary (history before output position 0); may be nil
	OnTok  func(Token) // optional callback for every token decoded
	MaxOut int         // 0 = unlimited; otherwise producing more stops with State "corrupt", Err "output-limit"
	// LazyEOB: do not reject a dynamic block without an end-of-block code when
	// its header is parsed (it can never end, but its symbols are decodable):
	// keep decoding as compress/flate does and set Result.NoEOB.
	LazyEOB bool
}

// RFC 1951 3.2.5 tables.
var (
	lenBase = [29]int{3, 4, 5, 6, 7, 8, 9, 10, 11, 13, 15, 17, 19, 23, 27, 31,
		35, 43, 51, 59, 67, 83, 99, 115, 131, 163, 195, 227, 258}
	lenExtra = [29]int{0, 0, 0, 0, 0, 0, 0, 0, 1, 1, 1, 1, 2, 2, 2, 2,
		3, 3, 3, 3, 4, 4, 4, 4, 5, 5, 5, 5, 0}
	distBase = [30]int{1, 2, 3, 4, 5, 7, 9, 13, 17, 25, 33, 49, 65, 97, 129, 193,
		257, 385, 513, 769, 1025, 1537, 2049, 3073, 4097, 6145, 8193, 12289, 16385, 24577}
	distExtra = [30]int{0, 0, 0, 0, 1, 1, 2, 2, 3, 3, 4, 4, 5, 5, 6, 6,
		7, 7, 8, 8, 9, 9, 10, 10, 11, 11, 12, 12, 13, 13}
	clOrder = [19]int{16, 17, 18, 0, 8, 7, 9, 6, 10, 5, 11, 4, 12, 3, 13, 2, 14, 1, 15}

	fixedLit, fixedDist *tree
)

func init() {
	var l [288]uint8
	for i := range l {
		switch {
		case i < 144:
			l[i] = 8
		case i < 256:
			l[i] = 9
		case i < 280:
			l[i] = 7
		default:
			l[i] = 8
		}
	}
	fixedLit, _ = build(l[:])
	var d [32]uint8
	for i := range d {
		d[i] = 5
	}
	fixedDist, _ = build(d[:])
}

// bitReader reads bits LSB first. A failed read consumes nothing.
type bitReader struct {
	data []byte
	pos  int64
	end  int64
}

func (r *bitReader) bits(n int) (uint32, bool) {
	if r.end-r.pos < int64(n) {
		return 0, false
	}
	var v uint32
	for i := 0; i < n; i++ {
		v |= uint32(r.data[r.pos>>3]>>(r.pos&7)&1) << i
		r.pos++
	}
	return v, true
}

// tree is a canonical Huffman code in per-length form (RFC 1951 3.2.2).
type tree struct {
	count [16]uint32 // number of codes of each length
	first [16]uint32 // first (smallest) code of each length
	offs  [16]int    // index in syms of the first symbol of each length
	syms  []uint16   // symbols ordered by (length, symbol)
	max   int        // longest code length, 0 for an empty tree
	used  int        // symbols with a code
	total uint32     // Kraft sum in units of 2^-max
}

// build makes the decoding tables; over reports an over-subscribed length set.
func build(lengths []uint8) (t *tree, over bool) {
	t = &tree{}
	for _, l := range lengths {
		if l > 0 {
			t.count[l]++
			t.used++
			if int(l) > t.max {
				t.max = int(l)
			}
		}
	}
	var code uint32
	n := 0
	for l := 1; l <= t.max; l++ {
		code <<= 1
		t.first[l] = code
		t.offs[l] = n
		code += t.count[l]
		n += int(t.count[l])
		if code > 1<<l {
			return t, true
		}
	}
	t.total = code
	t.syms = make([]uint16, t.used)
	var next [16]int
	copy(next[:], t.offs[:])
	for s, l := range lengths {
		if l > 0 {
			t.syms[next[l]] = uint16(s)
			next[l]++
		}
	}
	return t, false
}

// incomplete reports the kind of incompleteness that compress/flate rejects.
func (t *tree) incomplete() bool {
	return t.used > 0 && t.total < 1<<t.max && !(t.used == 1 && t.max == 1)
}

const (
	symOK = iota
	symShort
	symUnassigned
)

// decode reads one symbol. It reports symUnassigned as soon as the bits read
// so far cannot be the prefix of any code, and symShort if input runs out
// before that is decided.
func (t *tree) decode(r *bitReader) (int, int) {
	var code uint32
	for l := 0; ; {
		// Codes tile [0,total) at depth max, so a prefix whose interval starts
		// at or beyond total leads nowhere.
		if code<<(t.max-l) >= t.total {
			return 0, symUnassigned
		}
		if r.pos >= r.end {
			return 0, symShort
		}
		code = code<<1 | uint32(r.data[r.pos>>3]>>(r.pos&7)&1)
		r.pos++
		l++
		if d := code - t.first[l]; code >= t.first[l] && d < t.count[l] {
			return int(t.syms[t.offs[l]+int(d)]), symOK
		}
	}
}

type decoder struct {
	r        bitReader
	opt      Options
	res      Result
	out      []byte
	item     int64 // start of the item being read
	boundary int64 // end of the last completed block
	lastLit  []uint8
	lastDist []uint8
}

func (d *decoder) more() bool {
	d.res.State = "more"
	return false
}

func (d *decoder) corrupt(e string) bool {
	d.res.State = "corrupt"
	d.res.Err = e
	d.res.ErrOut = len(d.out)
	return false
}

// Inflate decodes data as a raw DEFLATE stream.
func Inflate(data []byte, opt Options) Result {
	d := &decoder{r: bitReader{data: data, end: int64(len(data)) * 8}, opt: opt}
	d.run()
	res := d.res
	res.Out = d.out
	if res.Out == nil {
		res.Out = []byte{}
	}
	if res.State == "done" {
		res.EndBit = d.r.pos
		res.EndByte = int((res.EndBit + 7) / 8)
		res.Trail = len(data) - res.EndByte
		res.Tail = "final"
		return res
	}
	res.EndBit = d.item
	res.Tail = "mid"
	if len(data) == 0 {
		res.Tail = "empty"
	} else if n := len(res.Blocks); res.State == "more" && d.boundary == d.r.end && n > 0 &&
		res.Blocks[n-1].Empty && !res.Blocks[n-1].Final {
		res.Tail = "sync"
	}
	res.CleanEnd = res.State == "more" && d.r.end-d.boundary < 8
	return res
}

func (d *decoder) run() {
	for {
		d.item = d.r.pos
		h, ok := d.r.bits(3)
		if !ok {
			d.more()
			return
		}
		b := Block{Type: int(h >> 1), Final: h&1 == 1, StartBit: d.item, OutStart: len(d.out)}
		switch b.Type {
		case 0:
			ok = d.stored(&b)
		case 1:
			ok = d.huffman(&b, fixedLit, fixedDist)
		case 2:
			var lt, dt *tree
			if lt, dt, ok = d.dynamicHeader(); ok {
				b.LitLens, b.DistLens, b.HdrBits = d.lastLit, d.lastDist, d.r.pos-b.StartBit
				ok = d.huffman(&b, lt, dt)
			}
		default:
			ok = d.corrupt(DefectReservedType)
		}
		if !ok {
			return
		}
		b.EndBit = d.r.pos
		b.OutLen = len(d.out) - b.OutStart
		d.boundary = d.r.pos
		d.res.Blocks = append(d.res.Blocks, b)
		if b.Empty && !b.Final {
			d.res.Syncs = append(d.res.Syncs, SyncPoint{ByteEnd: int(b.EndBit / 8), OutLen: len(d.out)})
		}
		if b.Final {
			d.res.State = "done"
			return
		}
	}
}

func (d *decoder) room(n int) bool {
	return d.opt.MaxOut <= 0 || len(d.out)+n <= d.opt.MaxOut
}

func (d *decoder) stored(b *Block) bool {
	d.r.pos = (d.r.pos + 7) &^ 7
	d.item = d.r.pos
	v, ok := d.r.bits(32)
	if !ok {
		return d.more()
	}
	n := int(v & 0xffff)
	if uint16(v>>16) != ^uint16(v) {
		return d.corrupt(DefectStoredLen)
	}
	b.Empty = n == 0
	p := int(d.r.pos / 8)
	have := min(n, len(d.r.data)-p)
	if !d.room(have) {
		return d.corrupt(DefectOutputLimit)
	}
	d.out = append(d.out, d.r.data[p:p+have]...)
	d.r.pos += int64(have) * 8
	d.item = d.r.pos
	if have < n {
		return d.more()
	}
	return true
}

func (d *decoder) dynamicHeader() (lt, dt *tree, ok bool) {
	d.item = d.r.pos
	v, ok := d.r.bits(14)
	if !ok {
		return nil, nil, d.more()
	}
	nlit, ndist, ncl := int(v&31)+257, int(v>>5&31)+1, int(v>>10&15)+4
	if nlit > 286 {
		return nil, nil, d.corrupt(DefectBadLenSym)
	}
	if ndist > 30 {
		return nil, nil, d.corrupt(DefectBadDistSym)
	}
	var cl [19]uint8
	for i := 0; i < ncl; i++ {
		d.item = d.r.pos
		v, ok := d.r.bits(3)
		if !ok {
			return nil, nil, d.more()
		}
		cl[clOrder[i]] = uint8(v)
	}
	ct, over := build(cl[:])
	if over {
		return nil, nil, d.corrupt(DefectOversubscribed)
	}
	d.res.Incomplete = d.res.Incomplete || ct.incomplete()

	lens := make([]uint8, nlit+ndist)
	for i := 0; i < len(lens); {
		d.item = d.r.pos
		sym, st := ct.decode(&d.r)
		if st == symShort {
			return nil, nil, d.more()
		}
		if st == symUnassigned {
			return nil, nil, d.corrupt(DefectUnassigned)
		}
		if sym < 16 {
			lens[i] = uint8(sym)
			i++
			continue
		}
		var val uint8
		base, nb := 3, 2
		switch sym {
		case 16:
			if i == 0 {
				return nil, nil, d.corrupt(DefectRepeatNoPrev)
			}
			val = lens[i-1]
		case 17:
			nb = 3
		case 18:
			base, nb = 11, 7
		}
		x, ok := d.r.bits(nb)
		if !ok {
			return nil, nil, d.more()
		}
		rep := base + int(x)
		if i+rep > len(lens) {
			return nil, nil, d.corrupt(DefectRunPastCount)
		}
		for ; rep > 0; rep-- {
			lens[i] = val
			i++
		}
	}
	d.lastLit, d.lastDist = append([]uint8{}, lens[:nlit]...), append([]uint8{}, lens[nlit:]...)
	lt, over1 := build(lens[:nlit])
	dt, over2 := build(lens[nlit:])
	if over1 || over2 {
		return nil, nil, d.corrupt(DefectOversubscribed)
	}
	d.res.Incomplete = d.res.Incomplete || lt.incomplete() || dt.incomplete()
	if lens[256] == 0 {
		if !d.opt.LazyEOB {
			return nil, nil, d.corrupt(DefectNoEOB)
		}
		d.res.NoEOB = true
	}
	return lt, dt, true
}

// huffman decodes the tokens of one compressed block up to and including EOB.
func (d *decoder) huffman(b *Block, lt, dt *tree) bool {
	nd := len(d.opt.Dict)
	for {
		d.item = d.r.pos
		sym, st := lt.decode(&d.r)
		if st == symShort {
			return d.more()
		}
		if st == symUnassigned {
			return d.corrupt(DefectUnassigned)
		}
		if sym < 256 {
			if !d.room(1) {
				return d.corrupt(DefectOutputLimit)
			}
			if d.opt.OnTok != nil {
				d.opt.OnTok(Token{Lit: sym, Pos: len(d.out), Block: len(d.res.Blocks)})
			}
			d.out = append(d.out, byte(sym))
			b.NLit++
			continue
		}
		if sym == 256 {
			return true
		}
		if sym >= 286 {
			return d.corrupt(DefectBadLenSym)
		}
		x, ok := d.r.bits(lenExtra[sym-257])
		if !ok {
			return d.more()
		}
		length := lenBase[sym-257] + int(x)
		ds, st := dt.decode(&d.r)
		if st == symShort {
			return d.more()
		}
		if st == symUnassigned {
			return d.corrupt(DefectUnassigned)
		}
		if ds >= 30 {
			return d.corrupt(DefectBadDistSym)
		}
		if x, ok = d.r.bits(distExtra[ds]); !ok {
			return d.more()
		}
		dist := distBase[ds] + int(x)
		if dist > nd+len(d.out) {
			return d.corrupt(DefectDistTooFar)
		}
		if !d.room(length) {
			return d.corrupt(DefectOutputLimit)
		}
		if d.opt.OnTok != nil {
			d.opt.OnTok(Token{Lit: -1, Len: length, Dist: dist, Pos: len(d.out), Block: len(d.res.Blocks)})
		}
		for i := 0; i < length; i++ { // byte by byte: copies may overlap
			if p := len(d.out) - dist; p >= 0 {
				d.out = append(d.out, d.out[p])
			} else {
				d.out = append(d.out, d.opt.Dict[nd+p])
			}
		}
		b.NMatch++
		if dist > d.res.MaxDist {
			d.res.MaxDist = dist
		}
	}
}
