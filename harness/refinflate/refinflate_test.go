package refinflate

import (
	"bytes"
	"compress/flate"
	"fmt"
	"io"
	"math/rand"
	"sort"
	"testing"
	"time"
)

type shape struct {
	name string
	data []byte
}

func shapes() []shape {
	rng := rand.New(rand.NewSource(1))
	rnd := func(n int) []byte {
		b := make([]byte, n)
		rng.Read(b)
		return b
	}
	text := func(n int) []byte {
		words := []string{"the", "quick", "brown", "fox", "jumps", "over", "lazy", "dog", "deflate", "huffman", "\n", ", "}
		var b bytes.Buffer
		for b.Len() < n {
			b.WriteString(words[rng.Intn(len(words))])
			b.WriteByte(' ')
		}
		return b.Bytes()[:n]
	}
	periodic := func(n, p int) []byte {
		unit := rnd(p)
		b := make([]byte, n)
		for i := range b {
			b[i] = unit[i%p]
		}
		return b
	}
	s := []shape{
		{"empty", nil},
		{"one", []byte{'x'}},
		{"text1k", text(1000)},
		{"text100k", text(100 << 10)},
		{"random1k", rnd(1 << 10)},
		{"random70k", rnd(70 << 10)},
		{"random300k", rnd(300 << 10)},
		{"zeros200k", make([]byte, 200<<10)},
		{"run300", bytes.Repeat([]byte{7}, 300)},
		{"mixed", append(append(text(40000), rnd(30000)...), make([]byte, 50000)...)},
	}
	for _, p := range []int{1, 2, 3, 4, 7, 31, 257, 258, 259, 1000, 32767, 32768, 32769, 40000} {
		s = append(s, shape{fmt.Sprintf("period%d", p), periodic(max(3*p, 100000), p)})
	}
	return s
}

var levels = []int{-2, 0, 1, 6, 9}

// deflate compresses data, calling Flush after each of the given cut points.
func deflate(t testing.TB, data []byte, level int, dict []byte, cuts []int) []byte {
	var buf bytes.Buffer
	var w *flate.Writer
	var err error
	if dict != nil {
		w, err = flate.NewWriterDict(&buf, level, dict)
	} else {
		w, err = flate.NewWriter(&buf, level)
	}
	if err != nil {
		t.Fatal(err)
	}
	prev := 0
	for _, c := range cuts {
		w.Write(data[prev:c])
		if err := w.Flush(); err != nil {
			t.Fatal(err)
		}
		prev = c
	}
	w.Write(data[prev:])
	if err := w.Close(); err != nil {
		t.Fatal(err)
	}
	return buf.Bytes()
}

func checkDone(t *testing.T, name string, comp, data, dict []byte, nflush int) {
	t.Helper()
	ntok := 0
	res := Inflate(comp, Options{Dict: dict, OnTok: func(Token) { ntok++ }})
	if res.State != "done" || !bytes.Equal(res.Out, data) || res.Trail != 0 || res.Tail != "final" ||
		res.EndByte != len(comp) || res.Incomplete {
		t.Fatalf("%s: state=%s err=%s out=%d/%d trail=%d tail=%s endbyte=%d/%d incomplete=%v", name, res.State,
			res.Err, len(res.Out), len(data), res.Trail, res.Tail, res.EndByte, len(comp), res.Incomplete)
	}
	if len(res.Syncs) != nflush {
		t.Fatalf("%s: %d syncs, want %d", name, len(res.Syncs), nflush)
	}
	// Block bookkeeping must tile input and output.
	var bit int64
	outp, toks := 0, 0
	for i, b := range res.Blocks {
		if b.StartBit != bit || b.OutStart != outp || b.Final != (i == len(res.Blocks)-1) {
			t.Fatalf("%s: block %d bookkeeping %+v (bit %d out %d)", name, i, b, bit, outp)
		}
		bit, outp, toks = b.EndBit, outp+b.OutLen, toks+b.NLit+b.NMatch
	}
	if bit != res.EndBit || outp != len(data) || toks != ntok {
		t.Fatalf("%s: totals bit %d/%d out %d/%d toks %d/%d", name, bit, res.EndBit, outp, len(data), toks, ntok)
	}
	for _, s := range res.Syncs {
		p := Inflate(comp[:s.ByteEnd], Options{Dict: dict})
		if p.State != "more" || p.Tail != "sync" || len(p.Out) != s.OutLen || !p.CleanEnd ||
			!bytes.Equal(p.Out, data[:s.OutLen]) {
			t.Fatalf("%s: prefix to sync %+v: state=%s tail=%s out=%d clean=%v", name, s, p.State, p.Tail, len(p.Out), p.CleanEnd)
		}
	}
}

func TestRoundTrip(t *testing.T) {
	rng := rand.New(rand.NewSource(2))
	for _, s := range shapes() {
		for _, lv := range levels {
			checkDone(t, fmt.Sprintf("%s/L%d", s.name, lv), deflate(t, s.data, lv, nil, nil), s.data, nil, 0)

			nf := 1 + rng.Intn(4)
			cuts := make([]int, nf)
			for i := range cuts {
				cuts[i] = rng.Intn(len(s.data) + 1)
			}
			sort.Ints(cuts)
			checkDone(t, fmt.Sprintf("%s/L%d/flush%v", s.name, lv, cuts), deflate(t, s.data, lv, nil, cuts), s.data, nil, nf)

			if len(s.data) >= 1000 {
				// dictionary shares content with the data so that matches reach into it
				dict := append(append([]byte("preset dictionary "), s.data[len(s.data)/2:][:min(20000, len(s.data)/2)]...), s.data[:500]...)
				comp := deflate(t, s.data, lv, dict, cuts[:1])
				checkDone(t, fmt.Sprintf("%s/L%d/dict", s.name, lv), comp, s.data, dict, 1)
			}
		}
	}
}

func TestDictIsNeeded(t *testing.T) {
	data := bytes.Repeat([]byte("abcdefghij0123456789"), 20)
	dict := []byte("zzzz abcdefghij0123456789")
	comp := deflate(t, data, 9, dict, nil)
	if r := Inflate(comp, Options{Dict: dict}); r.State != "done" || !bytes.Equal(r.Out, data) {
		t.Fatalf("with dict: %s %s", r.State, r.Err)
	}
	r := Inflate(comp, Options{})
	if r.State != "corrupt" || r.Err != DefectDistTooFar || r.ErrOut != len(r.Out) || r.Tail != "mid" {
		t.Fatalf("without dict: %+v", r)
	}
}

func TestTruncation(t *testing.T) {
	rng := rand.New(rand.NewSource(3))
	rnd := make([]byte, 300)
	rng.Read(rnd)
	datas := [][]byte{nil, []byte("a"), []byte("hello hello hello hello, world world"), rnd,
		bytes.Repeat([]byte("abc"), 400), shapes()[2].data}
	for di, data := range datas {
		for _, lv := range levels {
			for _, cuts := range [][]int{nil, {len(data) / 2}} {
				comp := deflate(t, data, lv, nil, cuts)
				prevOut := 0
				syncs := Inflate(comp, Options{}).Syncs
				for n := 0; n < len(comp); n++ {
					r := Inflate(comp[:n], Options{})
					if r.State != "more" || !bytes.HasPrefix(data, r.Out) || len(r.Out) < prevOut || r.Err != "" {
						t.Fatalf("data %d L%d cut %d/%d: state=%s err=%s out=%d", di, lv, n, len(comp), r.State, r.Err, len(r.Out))
					}
					prevOut = len(r.Out)
					wantTail := "mid"
					if n == 0 {
						wantTail = "empty"
					}
					for _, s := range syncs {
						if s.ByteEnd == n {
							wantTail = "sync"
						}
					}
					if r.Tail != wantTail || r.EndBit > int64(n)*8 || r.EndByte != 0 || r.Trail != 0 {
						t.Fatalf("data %d L%d cut %d: tail=%s want %s endbit=%d", di, lv, n, r.Tail, wantTail, r.EndBit)
					}
					if (r.Tail == "sync" || r.Tail == "empty") && !r.CleanEnd {
						t.Fatalf("data %d L%d cut %d: tail %s but not CleanEnd", di, lv, n, r.Tail)
					}
				}
			}
		}
	}
}

func TestTrailingGarbage(t *testing.T) {
	rng := rand.New(rand.NewSource(4))
	for _, s := range shapes()[:8] {
		for _, lv := range levels {
			comp := deflate(t, s.data, lv, nil, nil)
			for _, n := range []int{1, 2, 7, 100} {
				g := make([]byte, n)
				rng.Read(g)
				r := Inflate(append(comp[:len(comp):len(comp)], g...), Options{})
				if r.State != "done" || r.Trail != n || r.EndByte != len(comp) || !bytes.Equal(r.Out, s.data) {
					t.Fatalf("%s L%d +%d: state=%s trail=%d endbyte=%d/%d", s.name, lv, n, r.State, r.Trail, r.EndByte, len(comp))
				}
			}
		}
	}
}

func TestMaxOut(t *testing.T) {
	data := make([]byte, 100000)
	comp := deflate(t, data, 6, nil, nil)
	r := Inflate(comp, Options{MaxOut: 5000})
	if r.State != "corrupt" || r.Err != DefectOutputLimit || len(r.Out) > 5000 || len(r.Out) < 5000-258 {
		t.Fatalf("state=%s err=%s out=%d", r.State, r.Err, len(r.Out))
	}
	if r := Inflate(comp, Options{MaxOut: len(data)}); r.State != "done" {
		t.Fatalf("exact limit: %s %s", r.State, r.Err)
	}
}

func TestSpeed(t *testing.T) {
	s := shapes()
	for _, d := range []shape{s[3], s[6]} {
		data := bytes.Repeat(d.data, 4<<20/len(d.data)+1)
		comp := deflate(t, data, 6, nil, nil)
		t0 := time.Now()
		r := Inflate(comp, Options{})
		el := time.Since(t0)
		if r.State != "done" || len(r.Out) != len(data) {
			t.Fatal(r.State)
		}
		t.Logf("%s: %d -> %d bytes in %v", d.name, len(comp), len(data), el)
		if el > 2*time.Second {
			t.Errorf("too slow: %v", el)
		}
	}
}

// stdlib decodes with compress/flate; err == nil means the reader reached io.EOF.
func stdlib(data, dict []byte) ([]byte, error) {
	out, err := io.ReadAll(flate.NewReaderDict(bytes.NewReader(data), dict))
	return out, err
}

// Compare is the agreement contract between the reference and compress/flate.
// It returns a category for statistics and a non-empty problem on violation.
func compare(data []byte) (cat, problem string) {
	r := Inflate(data, Options{})
	so, serr := stdlib(data, nil)
	short, long := r.Out, so
	if len(short) > len(long) {
		short, long = long, short
	}
	if !bytes.HasPrefix(long, short) {
		return "", fmt.Sprintf("outputs diverge (ref %d bytes %s/%s, stdlib %d bytes %v)", len(r.Out), r.State, r.Err, len(so), serr)
	}
	_, sCorrupt := serr.(flate.CorruptInputError)
	switch {
	case serr == nil:
		if r.State != "done" || !bytes.Equal(r.Out, so) {
			return "", fmt.Sprintf("stdlib EOF with %d bytes but ref %s/%s with %d", len(so), r.State, r.Err, len(r.Out))
		}
		return "both-done", ""
	case r.State == "done":
		if !r.Incomplete || !sCorrupt {
			return "", fmt.Sprintf("ref done (incomplete=%v) but stdlib %v", r.Incomplete, serr)
		}
		return "ref-done/stdlib-corrupt(incomplete code)", ""
	case r.State == "more":
		if serr == io.ErrUnexpectedEOF {
			return "both-truncated", ""
		}
		if !r.Incomplete || !sCorrupt {
			return "", fmt.Sprintf("ref more (incomplete=%v) but stdlib %v", r.Incomplete, serr)
		}
		return "ref-more/stdlib-corrupt(incomplete code)", ""
	default:
		if sCorrupt {
			if r.Incomplete {
				return "both-corrupt(incomplete code seen)", ""
			}
			return "both-corrupt:" + r.Err, ""
		}
		if serr == io.ErrUnexpectedEOF {
			return "ref-corrupt/stdlib-truncated:" + r.Err, ""
		}
		return "", fmt.Sprintf("ref corrupt %s, stdlib unexpected error %v", r.Err, serr)
	}
}

func TestMutationAgreement(t *testing.T) {
	rng := rand.New(rand.NewSource(5))
	var bases [][]byte
	sh := shapes()
	small := [][]byte{nil, []byte("a"), []byte("hello hello hello hello, world world"), sh[2].data, sh[4].data[:300],
		sh[8].data, sh[3].data[:5000], sh[12].data[:3000], append(sh[2].data[:400:400], sh[4].data[:200]...)}
	for _, d := range small {
		for _, lv := range levels {
			bases = append(bases, deflate(t, d, lv, nil, nil))
			if len(d) > 10 {
				bases = append(bases, deflate(t, d, lv, nil, []int{len(d) / 3}))
			}
		}
	}
	stats := map[string]int{}
	const N = 30000
	for i := 0; i < N; i++ {
		b := append([]byte(nil), bases[rng.Intn(len(bases))]...)
		if len(b) == 0 {
			continue
		}
		switch rng.Intn(5) {
		case 0: // bit flips
			for k := 1 + rng.Intn(3); k > 0; k-- {
				b[rng.Intn(len(b))] ^= 1 << rng.Intn(8)
			}
		case 1: // early bit flip: headers
			p := rng.Intn(min(len(b), 12))
			b[p] ^= 1 << rng.Intn(8)
		case 2: // byte substitutions
			for k := 1 + rng.Intn(3); k > 0; k-- {
				b[rng.Intn(len(b))] = byte(rng.Intn(256))
			}
		case 3: // splice with another stream
			o := bases[rng.Intn(len(bases))]
			b = append(b[:rng.Intn(len(b)+1)], o[rng.Intn(len(o)):]...)
		case 4: // truncate, maybe after a flip
			if rng.Intn(2) == 0 {
				b[rng.Intn(len(b))] ^= 1 << rng.Intn(8)
			}
			b = b[:rng.Intn(len(b)+1)]
		}
		cat, problem := compare(b)
		if problem != "" {
			t.Fatalf("mutant %d (%x): %s", i, b, problem)
		}
		stats[cat]++
	}
	keys := make([]string, 0, len(stats))
	for k := range stats {
		keys = append(keys, k)
	}
	sort.Strings(keys)
	for _, k := range keys {
		t.Logf("%6d %s", stats[k], k)
	}
}
