package synth

import (
	"bytes"
	"compress/flate"
	"fmt"
	"io"
	"math/rand"
	"sort"
	"testing"

	"verif/harness/refinflate"
)

// stdlib decodes with compress/flate; err == nil means it read to io.EOF.
func stdlib(data []byte) ([]byte, error) {
	return io.ReadAll(flate.NewReader(bytes.NewReader(data)))
}

func TestTablesAndCodes(t *testing.T) {
	for l := 3; l <= 258; l++ {
		s, nb, v := LenSym(l)
		if s < 257 || s > 285 || int(v) >= 1<<nb || lenBase[s-257]+int(v) != l || (l == 258) != (s == 285) {
			t.Fatalf("LenSym(%d) = %d %d %d", l, s, nb, v)
		}
	}
	for d := 1; d <= 32768; d++ {
		s, nb, v := DistSym(d)
		if s < 0 || s > 29 || int(v) >= 1<<nb || distBase[s]+int(v) != d {
			t.Fatalf("DistSym(%d) = %d %d %d", d, s, nb, v)
		}
	}
	// RFC 1951 3.2.2 example: lengths (3,3,3,3,3,2,4,4) -> codes 010..1111
	c := Canonical([]uint8{3, 3, 3, 3, 3, 2, 4, 4})
	if fmt.Sprint(c.Bits) != "[2 3 4 5 6 0 14 15]" {
		t.Fatalf("canonical codes %v", c.Bits)
	}
	for lens, want := range map[string]string{"\x00\x00": "empty", "\x00\x03": "single", "\x01": "single",
		"\x01\x01": "complete", "\x01\x02": "incomplete", "\x01\x01\x05": "over", "\x02\x02\x02\x02": "complete"} {
		if got := Classify([]uint8(lens)); got != want {
			t.Errorf("Classify(%v) = %s, want %s", []uint8(lens), got, want)
		}
	}
	var w BitWriter
	w.Bits(1, 1)
	w.Code(0b110, 3) // MSB first: bits 1,1,0 follow
	if w.BitLen() != 4 || w.Bytes()[0] != 0b0111 {
		t.Fatalf("bit order: %08b", w.Bytes()[0])
	}
}

func TestGenerators(t *testing.T) {
	rng := rand.New(rand.NewSource(1))
	for i := 0; i < 3000; i++ {
		n := []int{19, 30, 286}[rng.Intn(3)]
		var must []int
		for k := rng.Intn(min(n, 40)); k > 0; k-- {
			must = append(must, rng.Intn(n))
		}
		shape := []string{"flat", "skew", "random", "two"}[rng.Intn(4)]
		maxLen := []int{7, 9, 15}[rng.Intn(3)]
		if shape == "two" {
			must = must[:min(len(must), 1)]
		}
		l := RandomComplete(rng, n, must, maxLen, shape)
		deepest := uint8(0)
		for _, v := range l {
			deepest = max(deepest, v)
		}
		if len(l) != n || Classify(l) != "complete" || int(deepest) > maxLen || (shape == "skew" && int(deepest) != maxLen) {
			t.Fatalf("RandomComplete(%d,%v,%d,%s) = %v (%s)", n, must, maxLen, shape, l, Classify(l))
		}
		for _, s := range must {
			if l[s] == 0 {
				t.Fatalf("must symbol %d unused", s)
			}
		}
		freq := make([]int, n)
		for k := 2 + rng.Intn(min(n, 1<<maxLen)-1); k > 0; k-- {
			freq[rng.Intn(n)] += 1 << rng.Intn(20) // steep distributions force the length limit
		}
		l = LensFromFreq(freq, maxLen)
		if c := Classify(l); c != "complete" && c != "single" {
			t.Fatalf("LensFromFreq(%v,%d) = %v (%s)", freq, maxLen, l, c)
		}
		for s, f := range freq {
			if (f > 0) != (l[s] > 0) || int(l[s]) > maxLen {
				t.Fatalf("LensFromFreq: symbol %d freq %d len %d", s, f, l[s])
			}
		}
	}
	data := sampleData(rng, 5000)
	toks := Tokenize(data, 32768)
	if !bytes.Equal(Expand(nil, toks), data) || len(toks) > len(data)/2 {
		t.Fatalf("Tokenize/Expand: %d tokens for %d bytes", len(toks), len(data))
	}
	for _, tk := range Tokenize(data, 100) {
		if tk.Dist > 100 {
			t.Fatalf("Tokenize ignores maxDist: %v", tk)
		}
	}
}

func sampleData(rng *rand.Rand, n int) []byte {
	b := make([]byte, n)
	switch rng.Intn(5) {
	case 0: // random
		rng.Read(b)
	case 1: // run
		for i := range b {
			b[i] = 'r'
		}
	case 2: // periodic
		p := 1 + rng.Intn(300)
		for i := range b {
			if i < p {
				b[i] = byte(rng.Intn(256))
			} else {
				b[i] = b[i-p]
			}
		}
	default: // text-like
		words := []string{"alpha ", "beta ", "gamma ", "delta ", "deflate ", "\n", "zzzzzzzzzzzz"}
		var buf bytes.Buffer
		for buf.Len() < n {
			buf.WriteString(words[rng.Intn(len(words))])
		}
		copy(b, buf.Bytes())
	}
	return b
}

// randomToks makes a token list; avail is the amount of history before it.
func randomToks(rng *rand.Rand, avail int) []Tok {
	switch rng.Intn(6) {
	case 0:
		return nil
	case 1, 2:
		return Tokenize(sampleData(rng, rng.Intn(3000)), []int{32768, 1, 300, 0}[rng.Intn(4)])
	}
	var toks []Tok
	for n := 1 + rng.Intn(300); n > 0; n-- {
		if avail == 0 || rng.Intn(3) == 0 {
			toks = append(toks, Lit(byte(rng.Intn(256))))
			avail++
			continue
		}
		length := []int{3, 4, 257, 258, 3 + rng.Intn(256), 3 + rng.Intn(10)}[rng.Intn(6)]
		far := min(avail, 32768)
		dist := []int{1, min(2, far), far, 1 + rng.Intn(far), 1 + rng.Intn(min(far, length))}[rng.Intn(5)]
		toks = append(toks, Match(length, dist))
		avail += length
	}
	return toks
}

// randomLens picks code lengths able to encode toks, exercising many shapes.
func randomLens(rng *rand.Rand, toks []Tok) (lit, dist []uint8, desc string) {
	lf, df := make([]int, 286), make([]int, 30)
	lf[256] = 1
	for _, t := range toks {
		if t.Lit >= 0 {
			lf[t.Lit]++
		} else {
			ls, _, _ := LenSym(t.Len)
			ds, _, _ := DistSym(t.Dist)
			lf[ls]++
			df[ds]++
		}
	}
	used := func(f []int) (m []int) {
		for s, n := range f {
			if n > 0 {
				m = append(m, s)
			}
		}
		return
	}
	pick := func(n int, must []int, allowTwo bool) ([]uint8, string) {
		shapes := []string{"flat", "skew", "random"}
		if allowTwo && len(must) <= 2 {
			shapes = append(shapes, "two", "two")
		}
		shape := shapes[rng.Intn(len(shapes))]
		maxLen := []int{15, 15, 15, 9, 12}[rng.Intn(5)]
		return RandomComplete(rng, n, must, maxLen, shape), shape
	}
	lm, dm := used(lf), used(df)
	if rng.Intn(4) == 0 {
		lit, desc = LensFromFreq(lf, 15), "freq" // only EOB used: a single 1-bit code
	} else {
		lit, desc = pick(286, lm, true)
	}
	var dd string
	switch k := rng.Intn(4); {
	case len(dm) == 0 && k < 2:
		dist, dd = make([]uint8, 30), "none" // HDIST=1 with one zero length
	case len(dm) <= 1 && k < 3:
		dist, dd = make([]uint8, 30), "single"
		dist[append(dm, rng.Intn(30))[0]] = 1
	case k == 3 && len(dm) >= 2:
		dist, dd = LensFromFreq(df, 15), "freq"
	default:
		dist, dd = pick(30, dm, true)
	}
	return lit, dist, desc + "/" + dd
}

type stream struct {
	data, want []byte
	types      []int // expected block types
	ntok       int
	maxDist    int
	desc       string
}

func randomStream(rng *rand.Rand) stream {
	var w BitWriter
	var s stream
	s.want = []byte{}
	if rng.Intn(8) == 0 { // long history so that far distances are possible
		pre := sampleData(rng, 32768+rng.Intn(8000))
		Stored(&w, false, pre)
		s.want, s.types, s.desc = append(s.want, pre...), append(s.types, 0), "prefix "
	}
	nb := 1 + rng.Intn(5)
	for b := 0; b < nb; b++ {
		final := b == nb-1
		if b > 0 && rng.Intn(3) == 0 {
			SyncMarker(&w)
			s.types, s.desc = append(s.types, 0), s.desc+"sync "
		}
		toks := randomToks(rng, len(s.want))
		out := Expand(s.want, toks)
		kind := rng.Intn(4)
		if kind == 0 && len(out) > 65535 {
			kind = 1
		}
		switch kind {
		case 0:
			Stored(&w, final, out)
			s.desc += fmt.Sprintf("stored(%d) ", len(out))
			toks = nil
		case 1:
			Fixed(&w, final, toks)
			s.desc += fmt.Sprintf("fixed(%d) ", len(toks))
		default:
			lit, dist, d := randomLens(rng, toks)
			opt := DynOptions{UseRepeat: rng.Intn(3) > 0, CrossBoundary: rng.Intn(2) == 0, FullHCLEN: rng.Intn(3) == 0}
			if rng.Intn(3) == 0 {
				nl, nd := max(257, lastUsed(lit)), max(1, lastUsed(dist))
				opt.HLit, opt.HDist = nl+rng.Intn(287-nl), nd+rng.Intn(31-nd)
			}
			if err := Dynamic(&w, final, lit, dist, toks, opt); err != nil {
				panic(err)
			}
			s.desc += fmt.Sprintf("dyn(%d,%s,%+v) ", len(toks), d, opt)
		}
		s.types = append(s.types, min(kind, 2))
		s.ntok += len(toks)
		for _, t := range toks {
			s.maxDist = max(s.maxDist, t.Dist)
		}
		s.want = append(s.want, out...)
	}
	s.data = w.Bytes()
	if want := int((w.BitLen() + 7) / 8); len(s.data) != want {
		panic("Bytes length")
	}
	return s
}

func TestRandomStreams(t *testing.T) {
	rng := rand.New(rand.NewSource(7))
	stats := map[string]int{}
	for i := 0; i < 6000; i++ {
		s := randomStream(rng)
		got, err := stdlib(s.data)
		if err != nil || !bytes.Equal(got, s.want) {
			t.Fatalf("stream %d [%s]: stdlib err=%v, %d bytes want %d", i, s.desc, err, len(got), len(s.want))
		}
		ntok := 0
		r := refinflate.Inflate(s.data, refinflate.Options{OnTok: func(refinflate.Token) { ntok++ }})
		if r.State != "done" || !bytes.Equal(r.Out, s.want) || r.EndByte != len(s.data) || r.Trail != 0 || r.Incomplete {
			t.Fatalf("stream %d [%s]: ref state=%s err=%s out=%d want %d endbyte=%d/%d incomplete=%v", i, s.desc,
				r.State, r.Err, len(r.Out), len(s.want), r.EndByte, len(s.data), r.Incomplete)
		}
		if len(r.Blocks) != len(s.types) || ntok != s.ntok || r.MaxDist != s.maxDist {
			t.Fatalf("stream %d [%s]: %d blocks want %d, %d tokens want %d, maxdist %d want %d", i, s.desc,
				len(r.Blocks), len(s.types), ntok, s.ntok, r.MaxDist, s.maxDist)
		}
		for k, b := range r.Blocks {
			if b.Type != s.types[k] {
				t.Fatalf("stream %d [%s]: block %d type %d want %d", i, s.desc, k, b.Type, s.types[k])
			}
			stats[fmt.Sprintf("blocks type %d", b.Type)]++
			if b.StartBit%8 != 0 {
				stats["blocks at odd bit offset"]++
			}
			if b.Type != 0 && b.NLit+b.NMatch == 0 {
				stats[fmt.Sprintf("empty blocks type %d", b.Type)]++
			}
		}
		if r.MaxDist == 32768 {
			stats["streams reaching distance 32768"]++
		}
	}
	logStats(t, stats)
	for _, k := range []string{"blocks at odd bit offset", "empty blocks type 1", "empty blocks type 2", "streams reaching distance 32768"} {
		if stats[k] == 0 {
			t.Errorf("no coverage of %q", k)
		}
	}
}

func logStats(t *testing.T, stats map[string]int) {
	var keys []string
	for k := range stats {
		keys = append(keys, k)
	}
	sort.Strings(keys)
	for _, k := range keys {
		t.Logf("%7d %s", stats[k], k)
	}
}

// lens builds a length slice of size n from symbol/length pairs.
func lens(n int, pairs ...int) []uint8 {
	l := make([]uint8, n)
	for i := 0; i < len(pairs); i += 2 {
		l[pairs[i]] = uint8(pairs[i+1])
	}
	return l
}

// customCL writes a dynamic header whose code-length code is given explicitly.
func customCL(w *BitWriter, final bool, lit, dist []uint8, cl [19]uint8) *SymWriter {
	nlit, ndist := 257, 1
	for i, v := range dist {
		if v > 0 {
			ndist = i + 1
		}
	}
	for i, v := range lit {
		if v > 0 && i >= nlit {
			nlit = i + 1
		}
	}
	all := append(append([]uint8{}, lit[:nlit]...), dist[:ndist]...)
	DynamicHeaderRaw(w, final, nlit-257, ndist-1, 15, cl, RLE(all, false))
	return NewSymWriter(w, lit, dist)
}

func must(err error) {
	if err != nil {
		panic(err)
	}
}

func TestFaults(t *testing.T) {
	abLit := lens(286, 'a', 2, 'b', 2, 256, 2, 257, 2) // complete: a, b, EOB, length 3
	dyn := func(w *BitWriter, lit, dist []uint8) *SymWriter {
		s, err := DynamicHeader(w, true, lit, dist, DynOptions{UseRepeat: true})
		must(err)
		return s
	}
	cl := func(pairs ...int) (c [19]uint8) { copy(c[:], lens(19, pairs...)); return }
	cases := []struct {
		name  string
		want  string
		out   string // output expected before the defect
		build func(w *BitWriter)
	}{
		{"distance beyond output", refinflate.DefectDistTooFar, "a", func(w *BitWriter) {
			Fixed(w, true, []Tok{Lit('a'), Match(3, 2)})
		}},
		{"distance beyond output, second block", refinflate.DefectDistTooFar, "abc", func(w *BitWriter) {
			Stored(w, false, []byte("abc"))
			must(dyn(w, abLit, lens(30, 2, 1, 3, 1)).Tok(Match(3, 4)))
		}},
		{"unassigned litlen code of an incomplete tree", refinflate.DefectUnassigned, "a", func(w *BitWriter) {
			s := dyn(w, lens(286, 'a', 2, 'b', 2, 256, 2), lens(30))
			must(s.Tok(Lit('a')))
			s.RawCode(0b11, 2)
		}},
		{"unassigned code of a single-code distance tree", refinflate.DefectUnassigned, "a", func(w *BitWriter) {
			s := dyn(w, abLit, lens(30, 0, 1))
			must(s.Tok(Lit('a')))
			must(s.LitLenSym(257))
			s.RawCode(1, 1)
		}},
		{"match with an empty distance tree", refinflate.DefectUnassigned, "a", func(w *BitWriter) {
			s := dyn(w, abLit, lens(30))
			must(s.Tok(Lit('a')))
			must(s.LitLenSym(257))
		}},
		{"unassigned code-length code", refinflate.DefectUnassigned, "", func(w *BitWriter) {
			DynamicHeaderRaw(w, true, 0, 0, 15, cl(0, 2, 1, 2, 2, 2), []CLSym{{1, 0}, {2, 0}})
			w.Code(0b11, 2)
		}},
		{"over-subscribed litlen lengths", refinflate.DefectOversubscribed, "", func(w *BitWriter) {
			dyn(w, lens(286, 'a', 1, 'b', 1, 256, 1), lens(30, 0, 1))
		}},
		{"over-subscribed distance lengths", refinflate.DefectOversubscribed, "", func(w *BitWriter) {
			dyn(w, abLit, lens(30, 0, 1, 1, 1, 2, 5))
		}},
		{"over-subscribed code-length code", refinflate.DefectOversubscribed, "", func(w *BitWriter) {
			DynamicHeaderRaw(w, true, 0, 0, 15, cl(0, 1, 1, 1, 2, 1), nil)
		}},
		{"missing EOB", refinflate.DefectNoEOB, "", func(w *BitWriter) {
			must(dyn(w, lens(286, 'a', 1, 'b', 1), lens(30, 0, 1)).Tok(Lit('a')))
		}},
		{"repeat with nothing to repeat", refinflate.DefectRepeatNoPrev, "", func(w *BitWriter) {
			DynamicHeaderRaw(w, true, 0, 0, 15, cl(16, 1, 0, 1), []CLSym{{16, 0}})
		}},
		{"run past declared count", refinflate.DefectRunPastCount, "", func(w *BitWriter) {
			DynamicHeaderRaw(w, true, 0, 0, 15, cl(18, 1, 1, 1), []CLSym{{18, 127}, {18, 127}})
		}},
		{"copy run past declared count", refinflate.DefectRunPastCount, "", func(w *BitWriter) {
			DynamicHeaderRaw(w, true, 0, 0, 15, cl(18, 2, 16, 2, 1, 1), []CLSym{{18, 127}, {18, 106}, {1, 0}, {16, 0}})
		}},
		{"HLIT too large", refinflate.DefectBadLenSym, "", func(w *BitWriter) {
			DynamicHeaderRaw(w, true, 30, 0, 15, cl(0, 1, 8, 1), nil)
		}},
		{"HDIST too large", refinflate.DefectBadDistSym, "", func(w *BitWriter) {
			DynamicHeaderRaw(w, true, 0, 30, 15, cl(0, 1, 8, 1), nil)
		}},
		{"bad stored NLEN", refinflate.DefectStoredLen, "", func(w *BitWriter) {
			StoredRaw(w, true, 5, 5, []byte("hello"))
		}},
		{"bad stored NLEN after data", refinflate.DefectStoredLen, "xy", func(w *BitWriter) {
			Fixed(w, false, []Tok{Lit('x'), Lit('y')})
			StoredRaw(w, true, 5, ^uint16(4), []byte("hello"))
		}},
		{"reserved block type", refinflate.DefectReservedType, "", func(w *BitWriter) {
			w.Bits(1, 1)
			w.Bits(3, 2)
		}},
		{"litlen symbol 286 in a fixed block", refinflate.DefectBadLenSym, "q", func(w *BitWriter) {
			s := FixedRaw(w, true)
			must(s.Tok(Lit('q')))
			must(s.LitLenSym(286))
		}},
		{"litlen symbol 287 in a fixed block", refinflate.DefectBadLenSym, "q", func(w *BitWriter) {
			s := FixedRaw(w, true)
			must(s.Tok(Lit('q')))
			must(s.LitLenSym(287))
		}},
		{"distance symbol 30 in a fixed block", refinflate.DefectBadDistSym, "q", func(w *BitWriter) {
			s := FixedRaw(w, true)
			must(s.Tok(Lit('q')))
			must(s.LitLenSym(257))
			must(s.DistSymRaw(30, 0, 0))
		}},
		{"distance symbol 31 in a fixed block", refinflate.DefectBadDistSym, "q", func(w *BitWriter) {
			s := FixedRaw(w, true)
			must(s.Tok(Lit('q')))
			must(s.LitLenSym(260))
			must(s.DistSymRaw(31, 0, 0))
		}},
	}
	for _, c := range cases {
		var w BitWriter
		c.build(&w)
		w.Bits(0, 32) // the verdict must not depend on running out of input
		w.Bits(0, 32)
		data := w.Bytes()
		r := refinflate.Inflate(data, refinflate.Options{})
		if r.State != "corrupt" || r.Err != c.want || string(r.Out) != c.out || r.ErrOut != len(c.out) {
			t.Errorf("%s: ref state=%s err=%s out=%q, want %s after %q", c.name, r.State, r.Err, r.Out, c.want, c.out)
		}
		out, err := stdlib(data)
		// compress/flate has no header-time check for a missing EOB code: it
		// decodes on (here through the zero padding) until the input runs out.
		_, ok := err.(flate.CorruptInputError)
		if !ok && !(c.want == refinflate.DefectNoEOB && err == io.ErrUnexpectedEOF) {
			t.Errorf("%s: stdlib err=%v (%d bytes), want a CorruptInputError", c.name, err, len(out))
		}
	}
	if err := Dynamic(&BitWriter{}, true, abLit, lens(30, 0, 1), []Tok{Lit('c')}, DynOptions{}); err == nil {
		t.Error("Dynamic accepted a token without a code")
	}
	if err := Dynamic(&BitWriter{}, true, abLit, lens(30, 0, 1), []Tok{Match(3, 2)}, DynOptions{}); err == nil {
		t.Error("Dynamic accepted a distance without a code")
	}
}

// TestIncompleteAcceptance documents which incomplete codes compress/flate
// accepts in streams that never use an unassigned bit pattern. The reference
// accepts all of them.
func TestIncompleteAcceptance(t *testing.T) {
	full := lens(286, 'a', 2, 'b', 2, 256, 2, 257, 2)
	okCL := [19]uint8{0: 2, 1: 2, 2: 2, 3: 2} // complete code over lengths 0..3
	body := func(s *SymWriter) {
		must(s.Tok(Lit('a')))
		must(s.Tok(Lit('b')))
		must(s.EOB())
	}
	withMatch := func(s *SymWriter) {
		must(s.Tok(Lit('a')))
		must(s.Tok(Match(3, 1)))
		must(s.EOB())
	}
	cases := []struct {
		name       string
		stdlibOK   bool
		incomplete bool // expected Result.Incomplete
		want       string
		build      func(w *BitWriter)
	}{
		{"complete codes", true, false, "ab", func(w *BitWriter) { body(customCL(w, true, full, lens(30, 0, 1, 1, 1), okCL)) }},
		{"empty distance tree, literals only", true, false, "ab", func(w *BitWriter) { body(customCL(w, true, full, lens(30), okCL)) }},
		{"single distance code of length 1", true, false, "aaaa", func(w *BitWriter) { withMatch(customCL(w, true, full, lens(30, 0, 1), okCL)) }},
		{"single distance code of length 1, not symbol 0, unused", true, false, "ab", func(w *BitWriter) { body(customCL(w, true, full, lens(30, 7, 1), okCL)) }},
		{"single distance code of length 2", false, true, "aaaa", func(w *BitWriter) { withMatch(customCL(w, true, full, lens(30, 0, 2), okCL)) }},
		{"two distance codes of length 2", false, true, "aaaa", func(w *BitWriter) { withMatch(customCL(w, true, full, lens(30, 0, 2, 1, 2), okCL)) }},
		{"litlen: only EOB, length 1", true, false, "", func(w *BitWriter) { must(customCL(w, true, lens(286, 256, 1), lens(30), okCL).EOB()) }},
		{"litlen: only EOB, length 2", false, true, "", func(w *BitWriter) { must(customCL(w, true, lens(286, 256, 2), lens(30), okCL).EOB()) }},
		{"litlen: three codes of length 2", false, true, "ab", func(w *BitWriter) { body(customCL(w, true, lens(286, 'a', 2, 'b', 2, 256, 2), lens(30), okCL)) }},
		{"code-length code: three codes of length 2", false, true, "ab", func(w *BitWriter) { body(customCL(w, true, full, lens(30, 0, 1, 1, 1), [19]uint8{0: 2, 1: 2, 2: 2})) }},
		{"code-length code: single code of length 1 (all lengths 9)", false, true, "ab", func(w *BitWriter) {
			l9 := bytes.Repeat([]byte{9}, 257)
			body(customCL(w, true, l9, []uint8{9}, [19]uint8{9: 1}))
		}},
		{"code-length code: single code of length 2", false, true, "ab", func(w *BitWriter) {
			l9 := bytes.Repeat([]byte{9}, 257)
			body(customCL(w, true, l9, []uint8{9}, [19]uint8{9: 2}))
		}},
	}
	for _, c := range cases {
		var w BitWriter
		c.build(&w)
		data := w.Bytes()
		r := refinflate.Inflate(data, refinflate.Options{})
		if r.State != "done" || string(r.Out) != c.want || r.Incomplete != c.incomplete {
			t.Errorf("%s: ref state=%s err=%s out=%q incomplete=%v", c.name, r.State, r.Err, r.Out, r.Incomplete)
		}
		out, err := stdlib(data)
		t.Logf("%-60s stdlib: %v", c.name, map[bool]string{true: "accepts", false: fmt.Sprint(err)}[err == nil])
		if (err == nil) != c.stdlibOK || (err == nil && string(out) != c.want) {
			t.Errorf("%s: stdlib err=%v out=%q, expected accept=%v", c.name, err, out, c.stdlibOK)
		}
	}
}

// TestMutationAgreement mutates synthesised streams (which, unlike
// compress/flate output, contain skewed, single-code and incomplete codes)
// and checks the same agreement contract as the refinflate package test.
func TestMutationAgreement(t *testing.T) {
	rng := rand.New(rand.NewSource(11))
	var bases [][]byte
	for len(bases) < 150 {
		if s := randomStream(rng); len(s.data) < 3000 {
			bases = append(bases, s.data)
		}
	}
	for i := 0; i < 40; i++ { // incomplete litlen / distance codes: drop a random symbol from a complete code
		toks := Tokenize(sampleData(rng, 200+rng.Intn(500)), 32768)
		lit, dist, _ := randomLens(rng, toks)
		if s := rng.Intn(286); s != 256 {
			lit[s] = 0
		}
		dist[rng.Intn(30)] = 0
		var w BitWriter
		if err := Dynamic(&w, true, lit, dist, toks, DynOptions{UseRepeat: true}); err == nil {
			bases = append(bases, w.Bytes())
		}
	}
	stats := map[string]int{}
	for i := 0; i < 30000; i++ {
		b := append([]byte(nil), bases[rng.Intn(len(bases))]...)
		switch rng.Intn(5) {
		case 0:
		case 1:
			for k := 1 + rng.Intn(3); k > 0; k-- {
				b[rng.Intn(len(b))] ^= 1 << rng.Intn(8)
			}
		case 2:
			b[rng.Intn(min(len(b), 16))] ^= 1 << rng.Intn(8)
		case 3:
			b[rng.Intn(len(b))] = byte(rng.Intn(256))
		case 4:
			o := bases[rng.Intn(len(bases))]
			b = append(b[:rng.Intn(len(b)+1)], o[rng.Intn(len(o)):]...)
		}
		if rng.Intn(6) == 0 {
			b = b[:rng.Intn(len(b)+1)]
		}
		r := refinflate.Inflate(b, refinflate.Options{})
		so, serr := stdlib(b)
		_, sCorrupt := serr.(flate.CorruptInputError)
		short, long := r.Out, so
		if len(short) > len(long) {
			short, long = long, short
		}
		cat := "ref " + r.State + " " + r.Err + " / stdlib "
		switch {
		case serr == nil:
			cat += "EOF"
		case sCorrupt:
			cat += "corrupt"
		default:
			cat += serr.Error()
		}
		if r.Incomplete {
			cat += " [incomplete code]"
		}
		var problem string
		switch {
		case !bytes.HasPrefix(long, short):
			problem = "outputs diverge"
		case serr == nil && (r.State != "done" || len(r.Out) != len(so)):
			problem = "stdlib accepted, reference did not"
		case serr != nil && r.State == "done" && !(r.Incomplete && sCorrupt):
			problem = "reference done, stdlib failed without an incomplete code"
		case r.State == "more" && serr != io.ErrUnexpectedEOF && !(r.Incomplete && sCorrupt):
			problem = "reference truncated, stdlib disagrees"
		case r.State == "corrupt" && !sCorrupt && serr != io.ErrUnexpectedEOF:
			problem = "reference corrupt, stdlib disagrees"
		}
		if problem != "" {
			t.Fatalf("mutant %d (%x): %s: %s (ref err %s, out %d vs %d)", i, b, problem, cat, r.Err, len(r.Out), len(so))
		}
		stats[cat]++
	}
	logStats(t, stats)
}
