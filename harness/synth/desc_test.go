package synth

import (
	"bytes"
	"compress/flate"
	"encoding/json"
	"fmt"
	"io"
	"math/rand"
	"testing"

	"verif/harness/refinflate"
)

func descJSON(d Desc) string {
	j, _ := json.Marshal(d)
	return string(j)
}

func TestDescValid(t *testing.T) {
	rng := rand.New(rand.NewSource(21))
	stats := map[string]int{}
	for i := 0; i < 3000; i++ {
		d := RandomDesc(rng, 4, 3000)
		if i%50 == 0 {
			d = RandomDesc(rng, 3, 40000) // outputs beyond the 32 KiB window
		}
		stream, expect, err := d.Build()
		if err != nil {
			t.Fatalf("%s: %v", descJSON(d), err)
		}
		got, serr := stdlib(stream)
		if serr != nil || !bytes.Equal(got, expect) {
			t.Fatalf("%s: stdlib err=%v, %d bytes, want %d", descJSON(d), serr, len(got), len(expect))
		}
		r := refinflate.Inflate(stream, refinflate.Options{OnTok: func(tk refinflate.Token) {
			if tk.Dist > 0 && tk.Dist == tk.Pos {
				stats["matches reaching back to the first output byte"]++
			}
			if tk.Dist > 0 && tk.Dist < tk.Len {
				stats["overlapping matches"]++
			}
			if tk.Len == 258 {
				stats["matches of length 258"]++
			}
		}})
		if r.State != "done" || !bytes.Equal(r.Out, expect) || r.Trail != 0 || r.Incomplete {
			t.Fatalf("%s: ref state=%s err=%s, %d bytes, want %d", descJSON(d), r.State, r.Err, len(r.Out), len(expect))
		}
		nsync := 0
		for _, b := range d.Blocks {
			if b.SyncBefore {
				nsync++
			}
			stats["type "+b.Type]++
			if b.Type == "dyn" {
				stats["dyn "+b.LShape+"/"+b.DShape]++
			}
		}
		if len(r.Blocks) != len(d.Blocks)+nsync {
			t.Fatalf("%s: %d blocks decoded, want %d", descJSON(d), len(r.Blocks), len(d.Blocks)+nsync)
		}
		for _, b := range r.Blocks {
			if b.StartBit%8 != 0 {
				stats["blocks at odd bit offset"]++
			}
		}
		if r.MaxDist == 32768 {
			stats["streams reaching distance 32768"]++
		}
		if len(expect) > 32768 {
			stats["outputs beyond 32768 bytes"]++
		}
	}
	logStats(t, stats)
	for _, k := range []string{"streams reaching distance 32768", "outputs beyond 32768 bytes", "blocks at odd bit offset",
		"matches reaching back to the first output byte", "overlapping matches", "matches of length 258",
		"dyn skew/single", "dyn freq/none", "dyn random/skew"} {
		if stats[k] == 0 {
			t.Errorf("no coverage of %q", k)
		}
	}
}

func TestDescJSONAndDeterminism(t *testing.T) {
	rng := rand.New(rand.NewSource(22))
	for i := 0; i < 200; i++ {
		d := RandomDesc(rng, 4, 300)
		if i%2 == 0 {
			d = RandomFaultDesc(rng, FaultKinds[i/2%len(FaultKinds)], i%4 == 0)
		}
		var back Desc
		if err := json.Unmarshal([]byte(descJSON(d)), &back); err != nil {
			t.Fatal(err)
		}
		s1, e1, err1 := d.Build()
		s2, e2, err2 := back.Build()
		if err1 != nil || err2 != nil || !bytes.Equal(s1, s2) || !bytes.Equal(e1, e2) {
			t.Fatalf("%s: not reproducible after a JSON round trip (%v, %v)", descJSON(d), err1, err2)
		}
	}
	want := `{"seed":5,"blocks":[{"type":"dyn","lshape":"flat","dshape":"none","toks":"lits","n":3,"repeat":true,` +
		`"cross":false,"fullhclen":false,"maxh":false,"sync":true,"worstcl":false,"alt258":false,"zerosplit":false,"dup":0}],"fault":{"kind":"missingEOB","block":0}}`
	d := Desc{Seed: 5, Blocks: []BlockDesc{{Type: "dyn", LShape: "flat", DShape: "none", Toks: "lits", N: 3, Repeat: true, SyncBefore: true}},
		Fault: &Fault{Kind: "missingEOB"}}
	if got := descJSON(d); got != want {
		t.Errorf("JSON form:\n got %s\nwant %s", got, want)
	}
}

func TestDescErrors(t *testing.T) {
	dyn := BlockDesc{Type: "dyn", LShape: "flat", DShape: "flat", Toks: "mixed", N: 10}
	fixed := BlockDesc{Type: "fixed", Toks: "mixed", N: 10}
	stored := BlockDesc{Type: "stored", N: 10}
	bad := []Desc{
		{},
		{Blocks: []BlockDesc{{Type: "weird"}}},
		{Blocks: []BlockDesc{{Type: "stored", N: 70000}}},
		{Blocks: []BlockDesc{{Type: "dyn", LShape: "single", DShape: "flat", Toks: "lits"}}},
		{Blocks: []BlockDesc{{Type: "fixed", Toks: "?"}}},
		{Blocks: []BlockDesc{dyn}, Fault: &Fault{Kind: "nope"}},
		{Blocks: []BlockDesc{dyn}, Fault: &Fault{Kind: "missingEOB", Block: 1}},
		{Blocks: []BlockDesc{fixed}, Fault: &Fault{Kind: "missingEOB"}},
		{Blocks: []BlockDesc{dyn}, Fault: &Fault{Kind: "lenSym286"}},
		{Blocks: []BlockDesc{dyn}, Fault: &Fault{Kind: "badStoredNLEN"}},
		{Blocks: []BlockDesc{stored}, Fault: &Fault{Kind: "distBeyondOutput"}},
		{Blocks: []BlockDesc{dyn}, Fault: &Fault{Kind: "staleDist"}},
		{Blocks: []BlockDesc{fixed, dyn}, Fault: &Fault{Kind: "staleDist", Block: 1}},
		{Blocks: []BlockDesc{{Type: "stored", N: 40000}, fixed}, Fault: &Fault{Kind: "distBeyondOutput", Block: 1}},
	}
	for _, d := range bad {
		if _, _, err := d.Build(); err == nil {
			t.Errorf("%s: Build succeeded", descJSON(d))
		}
	}
	for kind := range FaultDefect {
		if _, ok := faultTypes[kind]; !ok {
			t.Errorf("FaultDefect has unknown kind %s", kind)
		}
	}
	if len(faultTypes) != len(FaultKinds) {
		t.Errorf("FaultKinds and faultTypes differ")
	}
	defects := map[string]bool{}
	for _, c := range []string{refinflate.DefectReservedType, refinflate.DefectStoredLen, refinflate.DefectOversubscribed,
		refinflate.DefectUnassigned, refinflate.DefectBadLenSym, refinflate.DefectBadDistSym, refinflate.DefectDistTooFar,
		refinflate.DefectRepeatNoPrev, refinflate.DefectRunPastCount, refinflate.DefectNoEOB} {
		defects[c] = true
	}
	for kind, c := range FaultDefect {
		if !defects[c] {
			t.Errorf("FaultDefect[%s] = %q is not a refinflate constant", kind, c)
		}
	}
}

func TestDescFaults(t *testing.T) {
	tokenLevel := map[string]bool{"distBeyondOutput": true, "unassignedCode": true, "staleDist": true,
		"lenSym286": true, "lenSym287": true, "distSym30": true, "distSym31": true}
	rng := rand.New(rand.NewSource(23))
	for _, kind := range FaultKinds {
		stats := map[string]int{}
		for _, later := range []bool{false, true} {
			for seed := 0; seed < 50; seed++ {
				d := RandomFaultDesc(rng, kind, later)
				name := descJSON(d)
				if d.Fault.Block != len(d.Blocks)-1 || (later || kind == "staleDist") != (d.Fault.Block > 0) {
					t.Fatalf("%s: fault in the wrong block", name)
				}
				stream, expect, err := d.Build()
				if err != nil {
					t.Fatalf("%s: %v", name, err)
				}
				got, serr := stdlib(stream)
				r := refinflate.Inflate(stream, refinflate.Options{})
				stats[fmt.Sprintf("stdlib %v / ref %s %s", errClass(serr), r.State, r.Err)]++
				if !bytes.HasPrefix(r.Out, expect) || !bytes.HasPrefix(got, expect) {
					t.Fatalf("%s: expect (%d bytes) is not a prefix of ref (%d) / stdlib (%d) output", name, len(expect), len(r.Out), len(got))
				}
				switch kind {
				case "crossRunEdge": // legal
					if serr != nil || !bytes.Equal(got, expect) || r.State != "done" || !bytes.Equal(r.Out, expect) || r.Incomplete {
						t.Fatalf("%s: stdlib err=%v (%d bytes), ref %s %s (%d bytes), want %d bytes", name, serr, len(got), r.State, r.Err, len(r.Out), len(expect))
					}
					continue
				case "incompleteCode": // accepted by the reference, rejected by stdlib at header time
					if _, ok := serr.(flate.CorruptInputError); !ok || !bytes.Equal(got, expect) || !r.Incomplete || r.State != "done" {
						t.Fatalf("%s: stdlib err=%v (%d bytes, want %d), ref %s incomplete=%v", name, serr, len(got), len(expect), r.State, r.Incomplete)
					}
					continue
				}
				if serr == nil {
					t.Fatalf("%s: stdlib decoded to io.EOF", name)
				}
				if r.State != "corrupt" || r.Err != FaultDefect[kind] {
					t.Fatalf("%s: ref state=%s err=%s, want corrupt %s", name, r.State, r.Err, FaultDefect[kind])
				}
				if !bytes.Equal(r.Out, expect) {
					t.Fatalf("%s: ref produced %d bytes before the fault, expect has %d", name, len(r.Out), len(expect))
				}
				if tokenLevel[kind] && !bytes.Equal(got, expect) {
					t.Fatalf("%s: stdlib produced %d bytes before the fault, expect has %d", name, len(got), len(expect))
				}
				if _, ok := serr.(flate.CorruptInputError); !ok && kind != "missingEOB" {
					t.Fatalf("%s: stdlib err=%v, want a CorruptInputError", name, serr)
				}
			}
		}
		for k, n := range stats {
			t.Logf("%-17s %3d  %s", kind, n, k)
		}
	}
}

func errClass(err error) string {
	switch err.(type) {
	case nil:
		return "EOF"
	case flate.CorruptInputError:
		return "corrupt"
	}
	if err == io.ErrUnexpectedEOF {
		return "unexpected-EOF"
	}
	return err.Error()
}

// clRun is one code-length symbol of a dynamic header: it sets lengths
// [start, start+rep).
type clRun struct{ sym, start, rep int }

// parseDynHeader independently parses the dynamic header of the block that
// starts at the given bit and lists its code-length symbols. It stops at the
// declared count, at a 16 without a previous length or at the end of input.
func parseDynHeader(t *testing.T, data []byte, bit int64) (nlit, ndist int, runs []clRun) {
	get := func(n int) (v int) {
		for i := 0; i < n; i++ {
			if int(bit>>3) < len(data) {
				v |= int(data[bit>>3]>>(bit&7)&1) << i
			}
			bit++
		}
		return
	}
	if hdr := get(3); hdr>>1 != 2 {
		t.Fatalf("block at bit %d is not dynamic (header %03b)", bit-3, hdr)
	}
	nlit, ndist = get(5)+257, get(5)+1
	ncl := get(4) + 4
	var cl [19]uint8
	for i := 0; i < ncl; i++ {
		cl[clOrder[i]] = uint8(get(3))
	}
	code := Canonical(cl[:])
	for pos := 0; pos < nlit+ndist && int(bit>>3) < len(data); {
		sym, c, n := -1, uint32(0), 0
		for sym < 0 && n < 8 {
			c, n = c<<1|uint32(get(1)), n+1
			for s := range cl {
				if int(cl[s]) == n && code.Bits[s] == c {
					sym = s
				}
			}
		}
		rep := 1
		switch sym {
		case -1:
			t.Fatalf("undecodable code-length symbol")
		case 16:
			if pos == 0 {
				return nlit, ndist, append(runs, clRun{16, 0, 0})
			}
			rep = 3 + get(2)
		case 17:
			rep = 3 + get(3)
		case 18:
			rep = 11 + get(7)
		}
		runs = append(runs, clRun{sym, pos, rep})
		pos += rep
	}
	return
}

// TestDescHeaderShapes checks, with an independent header parser, that the
// header-level faults have exactly the promised shape and that every variant
// is produced.
func TestDescHeaderShapes(t *testing.T) {
	rng := rand.New(rand.NewSource(24))
	seen := map[string]int{}
	for i := 0; i < 1200; i++ {
		kind := []string{"crossRunEdge", "runPastCount", "repeatNoPrev", "distBeyondOutput", "unassignedCode", "oversubscribed"}[i%6]
		d := RandomFaultDesc(rng, kind, i%4 < 2)
		stream, _, note, err := d.build()
		if err != nil {
			t.Fatal(err)
		}
		seen[kind+" "+note]++
		if i%6 > 2 {
			continue
		}
		r := refinflate.Inflate(stream, refinflate.Options{})
		var start int64
		if n := len(r.Blocks); kind == "crossRunEdge" {
			start = r.Blocks[n-1].StartBit
		} else if n > 0 {
			start = r.Blocks[n-1].EndBit
		}
		nlit, ndist, runs := parseDynHeader(t, stream, start)
		last := runs[len(runs)-1]
		switch kind {
		case "repeatNoPrev":
			if len(runs) != 1 || last.sym != 16 {
				t.Fatalf("%s: header starts with %+v", descJSON(d), runs[0])
			}
		case "runPastCount":
			want := map[string]int{"18": 18, "16": 16, "cross": 18}[note]
			if last.sym != want || last.start+last.rep <= nlit+ndist || (note == "18" && last.rep != 138) ||
				(note == "16" && nlit+ndist-last.start > 2) || (note == "cross" && last.start >= nlit) {
				t.Fatalf("%s (%s): nlit=%d ndist=%d last run %+v", descJSON(d), note, nlit, ndist, last)
			}
			for _, x := range runs[:len(runs)-1] {
				if x.start+x.rep > last.start {
					t.Fatalf("%s: earlier run %+v overlaps", descJSON(d), x)
				}
			}
		case "crossRunEdge":
			var cross []clRun
			for _, x := range runs {
				if x.sym >= 16 && x.start < nlit && x.start+x.rep > nlit {
					cross = append(cross, x)
				}
			}
			if len(cross) != 1 || nlit >= 286 || last.start+last.rep != nlit+ndist {
				t.Fatalf("%s (%s): nlit=%d ndist=%d crossing runs %+v", descJSON(d), note, nlit, ndist, cross)
			}
			c := cross[0]
			seen[fmt.Sprintf("crossRunEdge symbol %d", c.sym)]++
			if end := c.start + c.rep; end == nlit+ndist {
				seen["crossRunEdge run ends exactly at the end"]++
			} else {
				seen["crossRunEdge run ends inside the distance lengths"]++
			}
			if (note == "16") != (c.sym == 16) || (note == "zeros-to-end") && c.start+c.rep != nlit+ndist {
				t.Fatalf("%s (%s): crossing run %+v, nlit=%d ndist=%d", descJSON(d), note, c, nlit, ndist)
			}
		}
	}
	logStats(t, seen)
	for _, k := range []string{"crossRunEdge 16", "crossRunEdge zeros-inside", "crossRunEdge zeros-to-end",
		"crossRunEdge symbol 16", "crossRunEdge symbol 17", "crossRunEdge symbol 18",
		"crossRunEdge run ends exactly at the end", "crossRunEdge run ends inside the distance lengths",
		"runPastCount 18", "runPastCount 16", "runPastCount cross", "distBeyondOutput empty", "distBeyondOutput next",
		"distBeyondOutput max", "unassignedCode dist", "unassignedCode litlen", "oversubscribed litlen", "oversubscribed dist"} {
		if seen[k] == 0 {
			t.Errorf("variant %q never produced", k)
		}
	}
}

// The longest dynamic header the format allows, and the second spelling of
// length 258, are accepted by compress/flate and decode to the expected bytes.
func TestWorstCLAndAlt258(t *testing.T) {
	longest := 0
	for seed := int64(1); seed <= 60; seed++ {
		for _, typ := range []string{"dyn", "fixed"} {
			d := Desc{Seed: seed, Blocks: []BlockDesc{
				{Type: typ, LShape: []string{"flat", "skew", "random", "freq"}[seed%4], DShape: []string{"flat", "random", "freq"}[seed%3],
					Toks: []string{"long", "near", "mixed"}[seed%3], N: 40 + int(seed), MaxH: seed%2 == 0, WorstCL: true, Alt258: true},
				{Type: "stored", N: 3}}}
			stream, want, err := d.Build()
			if err != nil {
				t.Fatal(err)
			}
			got, err := io.ReadAll(flate.NewReader(bytes.NewReader(stream)))
			if err != nil || !bytes.Equal(got, want) {
				t.Fatalf("seed %d %s: compress/flate: err=%v, %d bytes, want %d", seed, typ, err, len(got), len(want))
			}
			r := refinflate.Inflate(stream, refinflate.Options{})
			if r.State != "done" || !bytes.Equal(r.Out, want) {
				t.Fatalf("seed %d %s: reference: %s %s", seed, typ, r.State, r.Err)
			}
			if typ == "dyn" {
				longest = max(longest, int(r.Blocks[0].HdrBits))
			}
		}
	}
	if longest < 2280 {
		t.Errorf("longest header %d bits, want the format's maximum of 2286 (HLIT=286, HDIST=30, no runs, 7-bit code-length codes)", longest)
	}
	// the spelling is really used
	var w BitWriter
	Fixed(&w, true, []Tok{Lit('a'), {Lit: -1, Len: 258, Dist: 1, Alt: true}})
	var w2 BitWriter
	Fixed(&w2, true, []Tok{Lit('a'), Match(258, 1)})
	if bytes.Equal(w.Bytes(), w2.Bytes()) {
		t.Error("Alt has no effect")
	}
	got, err := io.ReadAll(flate.NewReader(bytes.NewReader(w.Bytes())))
	if err != nil || len(got) != 259 {
		t.Errorf("284+31: compress/flate gives %d bytes, %v", len(got), err)
	}
}

// A zero run continued with "repeat previous" (16) after a 17/18 item or an explicit zero, and a
// block repeated bit for bit behind a block of another type: legal, accepted by compress/flate.
func TestZeroSplitAndDup(t *testing.T) {
	split := 0
	for seed := int64(1); seed <= 80; seed++ {
		d := Desc{Seed: seed, Blocks: []BlockDesc{
			{Type: "dyn", LShape: []string{"flat", "skew", "random", "freq"}[seed%4], DShape: []string{"flat", "random", "single", "none"}[seed%4],
				Toks: []string{"lits", "near", "mixed", "lits"}[seed%4], N: 10 + int(seed), Repeat: true, Cross: seed%2 == 0, ZeroSplit: true},
			{Type: []string{"fixed", "stored", "fixed"}[seed%3], Toks: "lits", N: 5},
			{Type: "dyn", LShape: "flat", DShape: "flat", Toks: "lits", N: 3, Dup: 2}}}
		stream, want, err := d.Build()
		if err != nil {
			t.Fatal(err)
		}
		got, err := io.ReadAll(flate.NewReader(bytes.NewReader(stream)))
		if err != nil || !bytes.Equal(got, want) {
			t.Fatalf("seed %d: compress/flate: err=%v, %d bytes, want %d", seed, err, len(got), len(want))
		}
		r := refinflate.Inflate(stream, refinflate.Options{})
		if r.State != "done" || !bytes.Equal(r.Out, want) || len(r.Blocks) != 3 {
			t.Fatalf("seed %d: reference: %s %s, %d blocks", seed, r.State, r.Err, len(r.Blocks))
		}
		if !bytes.Equal(r.Blocks[0].LitLens, r.Blocks[2].LitLens) || r.Blocks[0].HdrBits != r.Blocks[2].HdrBits {
			t.Fatalf("seed %d: the third block does not repeat the header of the first", seed)
		}
	}
	lens := make([]uint8, 60)
	lens[0], lens[40], lens[59] = 3, 3, 2
	seq := RLEZeroSplit(lens)
	for i := 1; i < len(seq); i++ {
		if seq[i].Sym == 16 && (seq[i-1].Sym == 17 || seq[i-1].Sym == 18 || seq[i-1].Sym == 0 || seq[i-1].Sym == 16) {
			split++
		}
	}
	if split == 0 {
		t.Errorf("no repeat item directly behind a zero run: %v", seq)
	}
}
