package synth

import (
	"fmt"
	"math/rand"
)

// BlockDesc describes one block abstractly; the seed of the enclosing Desc
// decides the concrete symbols and code lengths.
type BlockDesc struct {
	Type       string `json:"type"`   // "stored" | "fixed" | "dyn"
	LShape     string `json:"lshape"` // dyn litlen code: "flat" | "skew" | "random" | "freq"
	DShape     string `json:"dshape"` // dyn distance code: "flat" | "skew" | "random" | "freq" | "single" | "none"
	Toks       string `json:"toks"`   // "empty" | "lits" | "near" | "far" | "long" | "mixed"
	N          int    `json:"n"`      // number of tokens (stored: number of data bytes, <= 65535)
	Repeat     bool   `json:"repeat"` // DynOptions.UseRepeat
	Cross      bool   `json:"cross"`  // DynOptions.CrossBoundary
	FullHCLEN  bool   `json:"fullhclen"`
	MaxH       bool   `json:"maxh"`      // declare HLit=286, HDist=30
	SyncBefore bool   `json:"sync"`      // write a sync marker (empty stored block) before this block
	WorstCL    bool   `json:"worstcl"`   // dyn: DynOptions.WorstCL (the longest possible header for these code lengths)
	Alt258     bool   `json:"alt258"`    // fixed/dyn: write length 258 as symbol 284 + extra bits 31
	ZeroSplit  bool   `json:"zerosplit"` // dyn with repeat: DynOptions.ZeroSplit
	Dup        int    `json:"dup"`       // > 0: this block is the block Dup places earlier once more, bit for bit (same header, same tokens)
}

// Fault is one injected fault (or, for "crossRunEdge", a targeted legal shape).
type Fault struct {
	Kind  string `json:"kind"`
	Block int    `json:"block"` // index of the block in which the fault is injected
}

// Desc is a JSON-serialisable description of a DEFLATE stream.
type Desc struct {
	Seed   int64       `json:"seed"`
	Blocks []BlockDesc `json:"blocks"`
	Fault  *Fault      `json:"fault"`
}

// FaultKinds lists every Fault.Kind that Build understands.
var FaultKinds = []string{"distBeyondOutput", "unassignedCode", "staleDist", "oversubscribed", "incompleteCode",
	"missingEOB", "repeatNoPrev", "runPastCount", "crossRunEdge", "badStoredNLEN", "reservedType",
	"lenSym286", "lenSym287", "distSym30", "distSym31", "hlitTooBig", "hdistTooBig"}

// FaultDefect maps a fault kind to the refinflate Defect* string a permissive
// reference decoder reports. "crossRunEdge" (legal) and "incompleteCode"
// (accepted by the reference, rejected by compress/flate) have no entry.
var FaultDefect = map[string]string{
	"distBeyondOutput": "distance-beyond-output", "unassignedCode": "unassigned-code", "staleDist": "unassigned-code",
	"oversubscribed": "oversubscribed-code", "missingEOB": "missing-end-of-block", "repeatNoPrev": "repeat-without-previous",
	"runPastCount": "run-past-count", "badStoredNLEN": "stored-len-mismatch", "reservedType": "reserved-block-type",
	"lenSym286": "invalid-length-symbol", "lenSym287": "invalid-length-symbol", "hlitTooBig": "invalid-length-symbol",
	"distSym30": "invalid-distance-symbol", "distSym31": "invalid-distance-symbol", "hdistTooBig": "invalid-distance-symbol",
}

// faultTypes gives the block types a fault kind can be injected into.
var faultTypes = map[string]string{"distBeyondOutput": "fixed dyn", "unassignedCode": "dyn", "staleDist": "dyn",
	"oversubscribed": "dyn", "incompleteCode": "dyn", "missingEOB": "dyn", "repeatNoPrev": "dyn", "runPastCount": "dyn",
	"crossRunEdge": "dyn", "badStoredNLEN": "stored", "reservedType": "stored fixed dyn", "lenSym286": "fixed",
	"lenSym287": "fixed", "distSym30": "fixed", "distSym31": "fixed", "hlitTooBig": "dyn", "hdistTooBig": "dyn"}

func oneOf(s string, set ...string) bool {
	for _, x := range set {
		if s == x {
			return true
		}
	}
	return false
}

func (d Desc) validate() error {
	for i, b := range d.Blocks {
		if !oneOf(b.Type, "stored", "fixed", "dyn") {
			return fmt.Errorf("synth: block %d: unknown type %q", i, b.Type)
		}
		if b.N < 0 || b.Type == "stored" && b.N > 65535 {
			return fmt.Errorf("synth: block %d: n=%d out of range", i, b.N)
		}
		if b.Type != "stored" && !oneOf(b.Toks, "empty", "lits", "near", "far", "long", "mixed") {
			return fmt.Errorf("synth: block %d: unknown toks %q", i, b.Toks)
		}
		if b.Type == "dyn" && (!oneOf(b.LShape, "flat", "skew", "random", "freq") ||
			!oneOf(b.DShape, "flat", "skew", "random", "freq", "single", "none")) {
			return fmt.Errorf("synth: block %d: unknown code shape %q/%q", i, b.LShape, b.DShape)
		}
	}
	if len(d.Blocks) == 0 {
		return fmt.Errorf("synth: no blocks")
	}
	if f := d.Fault; f != nil {
		types, ok := faultTypes[f.Kind]
		if !ok {
			return fmt.Errorf("synth: unknown fault kind %q", f.Kind)
		}
		if f.Block < 0 || f.Block >= len(d.Blocks) {
			return fmt.Errorf("synth: fault block %d out of range", f.Block)
		}
		if t := d.Blocks[f.Block].Type; !oneOf(t, splitWords(types)...) {
			return fmt.Errorf("synth: fault %s does not fit a %s block", f.Kind, t)
		}
		if f.Kind == "staleDist" && (f.Block == 0 || d.Blocks[f.Block-1].Type != "dyn") {
			return fmt.Errorf("synth: fault staleDist needs a dyn block before block %d", f.Block)
		}
	}
	return nil
}

func splitWords(s string) (w []string) {
	for len(s) > 0 {
		i := 0
		for i < len(s) && s[i] != ' ' {
			i++
		}
		w = append(w, s[:i])
		s = s[min(i+1, len(s)):]
	}
	return
}

// Build returns the stream bytes and the output a correct inflater produces
// before the end of the stream (Fault == nil or "crossRunEdge") or before it
// detects the fault: the bytes of all complete tokens before the faulty item.
//
// The last block has BFINAL=1. Blocks after a faulty block are not written;
// instead the faulty item is followed by EOB where the block has a usable
// code and by four zero bytes, so the verdict never depends on the input
// running out ("missingEOB" ends right after its literals, "incompleteCode"
// after its EOB). In a faulty dyn block a DShape that cannot carry the fault
// is replaced ("single"/"none" become "flat" where a real distance code is
// needed; "unassignedCode" and "staleDist" force "single").
func (d Desc) Build() (stream []byte, expect []byte, err error) {
	stream, expect, _, err = d.build()
	return
}

// build also returns a note naming the fault variant the seed selected.
func (d Desc) build() (stream []byte, expect []byte, note string, err error) {
	if err := d.validate(); err != nil {
		return nil, nil, "", err
	}
	b := &builder{rng: rand.New(rand.NewSource(d.Seed)), out: []byte{}}
	for i, bd := range d.Blocks {
		final := i == len(d.Blocks)-1
		if bd.SyncBefore {
			SyncMarker(&b.w)
		}
		if d.Fault != nil && d.Fault.Block == i {
			expect, err := b.fault(d.Fault.Kind, bd, final)
			if err != nil {
				return nil, nil, "", fmt.Errorf("synth: block %d, fault %s: %w", i, d.Fault.Kind, err)
			}
			if d.Fault.Kind != "crossRunEdge" {
				return b.w.Bytes(), expect, b.note, nil
			}
			continue
		}
		rich := d.Fault != nil && d.Fault.Kind == "staleDist" && d.Fault.Block == i+1
		if bd.Dup > 0 && bd.Dup <= i && len(b.done) > i-bd.Dup && b.done[i-bd.Dup].toks != nil {
			// the same block once more: identical header bits (up to BFINAL) and identical tokens;
			// its copies now reach into whatever lies between
			prev := b.done[i-bd.Dup]
			ok := true
			for _, t := range prev.toks {
				if t.Lit < 0 && t.Dist > len(b.out) {
					ok = false
				}
			}
			if ok {
				if err := b.replay(prev, final); err != nil {
					return nil, nil, "", fmt.Errorf("synth: block %d: %w", i, err)
				}
				b.done = append(b.done, prev)
				continue
			}
		}
		nTok := len(b.lastToks)
		_ = nTok
		b.lastToks, b.lastLit, b.lastDist, b.lastType = nil, nil, nil, ""
		if err := b.valid(bd, final, rich); err != nil {
			return nil, nil, "", fmt.Errorf("synth: block %d: %w", i, err)
		}
		b.done = append(b.done, doneBlock{typ: b.lastType, toks: b.lastToks, lit: b.lastLit, dist: b.lastDist, opt: bd.dynOptions()})
	}
	return b.w.Bytes(), b.out, b.note, nil
}

type builder struct {
	rng  *rand.Rand
	w    BitWriter
	out  []byte // output of everything written so far
	note string // fault variant chosen, for tests
	// what the valid blocks written so far consisted of (for Dup)
	done              []doneBlock
	lastToks          []Tok
	lastLit, lastDist []uint8
	lastType          string
}

type doneBlock struct {
	typ       string
	toks      []Tok
	lit, dist []uint8
	opt       DynOptions
}

// replay writes a block again with the same code lengths, header options and tokens.
func (b *builder) replay(p doneBlock, final bool) error {
	switch p.typ {
	case "fixed":
		s := FixedRaw(&b.w, final)
		if err := b.emit(s, p.toks); err != nil {
			return err
		}
		return s.EOB()
	case "dyn":
		s, err := DynamicHeader(&b.w, final, p.lit, p.dist, p.opt)
		if err != nil {
			return err
		}
		if err := b.emit(s, p.toks); err != nil {
			return err
		}
		return s.EOB()
	}
	return fmt.Errorf("cannot repeat a %s block", p.typ)
}

// tokCfg constrains token generation.
type tokCfg struct {
	kind     string
	n        int
	litsOnly bool // no matches at all
	single   bool // all matches use one distance symbol
	minDist  int  // smallest distance allowed
	maxLen   int  // longest match allowed
	maxOut   int  // stop once the total output reaches this (0 = no limit)
	alt258   bool // matches of length 258 use symbol 284
}

// genToks makes tokens that are legal after the output produced so far.
func (b *builder) genToks(c tokCfg) []Tok {
	rng := b.rng
	if c.kind == "empty" {
		return nil
	}
	if c.minDist = max(c.minDist, 1); c.maxLen == 0 {
		c.maxLen = 258
	}
	avail := len(b.out)
	alpha, base := []int{2, 16, 64, 256}[rng.Intn(4)], rng.Intn(256)
	singleSym := -1
	var toks []Tok
	for i := 0; i < c.n && (c.maxOut == 0 || avail < c.maxOut); i++ {
		kind := c.kind
		if kind == "mixed" {
			kind = []string{"lits", "near", "far", "long"}[rng.Intn(4)]
		}
		if kind == "lits" || c.litsOnly || avail < c.minDist || rng.Intn(4) == 0 {
			toks = append(toks, Lit(byte(base+rng.Intn(alpha))))
			avail++
			continue
		}
		far := min(avail, 32768)
		var length, dist int
		switch kind {
		case "near": // includes overlapping copies
			dist = 1 + rng.Intn(min(8, far))
			length = []int{3, 4, 3 + rng.Intn(20), 3 + rng.Intn(256), 258}[rng.Intn(5)]
		case "far": // as far back as possible
			dist = []int{far, far, far - rng.Intn(min(far, 16)), 1 + rng.Intn(far)}[rng.Intn(4)]
			length = []int{3, 3 + rng.Intn(20), 3 + rng.Intn(256)}[rng.Intn(3)]
		default: // "long"
			dist = []int{1 + rng.Intn(far), 1 + rng.Intn(min(far, 300))}[rng.Intn(2)]
			length = []int{258, 3}[rng.Intn(2)]
		}
		dist = max(dist, c.minDist)
		if c.single {
			if singleSym < 0 {
				singleSym, _, _ = DistSym(dist)
			}
			lo := distBase[singleSym]
			hi := min(lo+1<<distBits[singleSym]-1, far)
			if dist = lo + rng.Intn(hi-lo+1); kind == "far" && rng.Intn(2) == 0 {
				dist = hi
			}
		}
		m := Match(min(length, c.maxLen), dist)
		m.Alt = c.alt258
		toks = append(toks, m)
		avail += min(length, c.maxLen)
	}
	return toks
}

func boolInt(b bool) int {
	if b {
		return 1
	}
	return 0
}

// freqs counts litlen (286) and distance (30) symbol uses; EOB is not counted.
func freqs(toks []Tok) (lf, df []int) {
	lf, df = make([]int, 286), make([]int, 30)
	for _, t := range toks {
		if t.Lit >= 0 {
			lf[t.Lit]++
			continue
		}
		ls, _, _ := TokLenSym(t)
		ds, _, _ := DistSym(t.Dist)
		lf[ls]++
		df[ds]++
	}
	return
}

func usedSyms(freq []int) (m []int) {
	for s, f := range freq {
		if f > 0 {
			m = append(m, s)
		}
	}
	return
}

// code builds code lengths (len(freq) of them) of the given shape in which
// every symbol with a non-zero frequency is used and only symbols < n are.
func (b *builder) code(shape string, freq []int, n int) []uint8 {
	if shape == "freq" {
		return LensFromFreq(freq, 15)
	}
	return pad(RandomComplete(b.rng, n, usedSyms(freq), 15, shape), len(freq))
}

// distCode builds len(df) distance code lengths for a DShape.
func (b *builder) distCode(shape string, df []int) []uint8 {
	switch shape {
	case "none":
		return make([]uint8, len(df))
	case "single":
		l := make([]uint8, len(df))
		l[append(usedSyms(df), b.rng.Intn(len(df)))[0]] = 1
		return l
	}
	return b.code(shape, df, len(df))
}

func (bd BlockDesc) dynOptions() DynOptions {
	o := DynOptions{UseRepeat: bd.Repeat, CrossBoundary: bd.Cross, FullHCLEN: bd.FullHCLEN, WorstCL: bd.WorstCL, ZeroSplit: bd.ZeroSplit}
	if bd.MaxH {
		o.HLit, o.HDist = 286, 30
	}
	return o
}

// emit appends tokens to a block in progress and to the expected output.
func (b *builder) emit(s *SymWriter, toks []Tok) error {
	for _, t := range toks {
		if err := s.Tok(t); err != nil {
			return err
		}
	}
	b.out = append(b.out, Expand(b.out, toks)...)
	return nil
}

// dynStart writes a dynamic header with codes of the requested shapes that
// cover toks, EOB and the extra symbols, then the tokens (but not EOB).
func (b *builder) dynStart(bd BlockDesc, final bool, toks []Tok, lshape, dshape string, litExtra, distExtra []int) (*SymWriter, error) {
	lf, df := freqs(toks)
	for _, s := range append(litExtra, 256) {
		lf[s]++
	}
	for _, s := range distExtra {
		df[s]++
	}
	s, err := DynamicHeader(&b.w, final, b.code(lshape, lf, 286), b.distCode(dshape, df), bd.dynOptions())
	if err != nil {
		return nil, err
	}
	return s, b.emit(s, toks)
}

func (bd BlockDesc) tokCfg() tokCfg {
	return tokCfg{kind: bd.Toks, n: bd.N, litsOnly: bd.Type == "dyn" && bd.DShape == "none",
		single: bd.Type == "dyn" && bd.DShape == "single", alt258: bd.Alt258}
}

func (b *builder) bytes(n int) []byte {
	alpha, base := []int{2, 16, 64, 256}[b.rng.Intn(4)], b.rng.Intn(256)
	data := make([]byte, n)
	for i := range data {
		data[i] = byte(base + b.rng.Intn(alpha))
	}
	return data
}

// valid writes a well-formed block. rich forces a distance code with at least
// eight codes (the block before a "staleDist" fault).
func (b *builder) valid(bd BlockDesc, final, rich bool) error {
	switch bd.Type {
	case "stored":
		data := b.bytes(bd.N)
		Stored(&b.w, final, data)
		b.out = append(b.out, data...)
		return nil
	case "fixed":
		s := FixedRaw(&b.w, final)
		toks := b.genToks(bd.tokCfg())
		if err := b.emit(s, toks); err != nil {
			return err
		}
		b.lastType, b.lastToks = "fixed", append([]Tok{}, toks...)
		if b.lastToks == nil {
			b.lastToks = []Tok{}
		}
		return s.EOB()
	}
	cfg, dshape := bd.tokCfg(), bd.DShape
	var distExtra []int
	if rich {
		if cfg.litsOnly, cfg.single = false, false; oneOf(dshape, "single", "none", "freq") {
			dshape = "flat"
		}
		distExtra = b.rng.Perm(30)[:8]
	}
	vtoks := b.genToks(cfg)
	s, err := b.dynStart(bd, final, vtoks, bd.LShape, dshape, nil, distExtra)
	if err != nil {
		return err
	}
	b.lastType, b.lastToks, b.lastLit, b.lastDist = "dyn", append([]Tok{}, vtoks...), s.Lit.Len, s.Dist.Len
	if b.lastToks == nil {
		b.lastToks = []Tok{}
	}
	if n := len(usedSyms(lensToFreq(s.Dist.Len))); rich && n < 8 {
		return fmt.Errorf("only %d distance codes before a staleDist fault", n)
	}
	return s.EOB()
}

func lensToFreq(l []uint8) []int {
	f := make([]int, len(l))
	for i, v := range l {
		f[i] = int(v)
	}
	return f
}

// lastUsed is the number of leading entries of l that covers all non-zero ones.
func lastUsed(l []uint8) (n int) {
	for i, v := range l {
		if v > 0 {
			n = i + 1
		}
	}
	return
}

// fault writes the faulty block and returns the expected output before the fault.
func (b *builder) fault(kind string, bd BlockDesc, final bool) ([]byte, error) {
	rng, w := b.rng, &b.w
	snapshot := func() []byte { return append([]byte{}, b.out...) }
	before := snapshot()
	finish := func(s *SymWriter, expect []byte) ([]byte, error) {
		if s != nil {
			if err := s.EOB(); err != nil {
				return nil, err
			}
		}
		w.Bits(0, 32)
		return expect, nil
	}
	dshape := bd.DShape
	if oneOf(dshape, "single", "none") {
		dshape = "flat"
	}
	cfg := bd.tokCfg()
	cfg.litsOnly, cfg.single = false, false
	// header makes valid code lengths for toks and the code counts to declare.
	header := func(toks []Tok) (lit, dist []uint8, nlit, ndist int) {
		lf, df := freqs(toks)
		lf[256]++
		lit, dist = b.code(bd.LShape, lf, 286), b.distCode(bd.DShape, df)
		if nlit, ndist = max(257, lastUsed(lit)), max(1, lastUsed(dist)); bd.MaxH {
			nlit, ndist = 286, 30
		}
		return
	}

	switch kind {
	case "reservedType":
		w.Bits(uint32(boolInt(final)), 1)
		w.Bits(3, 2)
		return finish(nil, before)

	case "badStoredNLEN":
		data := b.bytes(bd.N)
		n := uint16(len(data))
		nlen := []uint16{^n ^ 1<<rng.Intn(16), n, ^n + 1, ^(n + 1)}[rng.Intn(4)]
		StoredRaw(w, final, n, nlen, data)
		return finish(nil, before)

	case "lenSym286", "lenSym287", "distSym30", "distSym31":
		s := FixedRaw(w, final)
		if err := b.emit(s, b.genToks(cfg)); err != nil {
			return nil, err
		}
		expect := snapshot()
		switch kind {
		case "lenSym286":
			s.LitLenSym(286)
		case "lenSym287":
			s.LitLenSym(287)
		default:
			ls, nb, v := LenSym(3 + rng.Intn(256))
			s.LitLenSym(ls)
			s.LenExtra(nb, v)
			s.DistSymRaw(30+boolInt(kind == "distSym31"), 0, 0)
		}
		return finish(s, expect)

	case "distBeyondOutput":
		if len(b.out) >= 32768 {
			return nil, fmt.Errorf("output so far (%d bytes) leaves no illegal distance", len(b.out))
		}
		variant := rng.Intn(3)
		if variant == 0 && len(b.out) > 0 {
			variant = 1 + rng.Intn(2)
		}
		var toks []Tok
		if cfg.maxOut = 32000; variant != 0 {
			toks = b.genToks(cfg)
		}
		avail := len(b.out) + len(Expand(b.out, toks))
		bad := Match(3+rng.Intn(256), []int{1 + rng.Intn(2), avail + 1, 32768}[variant])
		b.note = []string{"empty", "next", "max"}[variant]
		var s *SymWriter
		if bd.Type == "fixed" {
			s = FixedRaw(w, final)
			if err := b.emit(s, toks); err != nil {
				return nil, err
			}
		} else {
			ls, _, _ := LenSym(bad.Len)
			ds, _, _ := DistSym(bad.Dist)
			var err error
			if s, err = b.dynStart(bd, final, toks, bd.LShape, dshape, []int{ls}, []int{ds}); err != nil {
				return nil, err
			}
		}
		expect := snapshot()
		if err := s.Tok(bad); err != nil {
			return nil, err
		}
		return finish(s, expect)

	case "unassignedCode", "staleDist":
		b.note = "dist"
		if kind == "unassignedCode" && rng.Intn(4) == 0 { // litlen code with EOB only
			b.note = "litlen"
			lit := make([]uint8, 286)
			lit[256] = 1
			s, err := DynamicHeader(w, final, lit, b.distCode(bd.DShape, make([]int, 30)), bd.dynOptions())
			if err != nil {
				return nil, err
			}
			s.RawCode(1, 1)
			return finish(s, before)
		}
		cfg.single = true
		ls, nb, v := LenSym(3 + rng.Intn(256))
		s, err := b.dynStart(bd, final, b.genToks(cfg), bd.LShape, "single", []int{ls}, nil)
		if err != nil {
			return nil, err
		}
		expect := snapshot()
		s.LitLenSym(ls)
		s.LenExtra(nb, v)
		s.RawCode(1, 1) // the unassigned half of the 1-bit distance code
		return finish(s, expect)

	case "oversubscribed":
		toks := b.genToks(cfg)
		lf, df := freqs(toks)
		lf[256]++
		lit, dist := b.code(bd.LShape, lf, 286), b.distCode(dshape, df)
		victim := lit
		if b.note = "litlen"; rng.Intn(2) == 0 {
			b.note = "dist"
			if victim = dist; Classify(dist) != "complete" {
				victim = pad(RandomComplete(rng, 30, usedSyms(df), 15, "flat"), 30)
				dist = victim
			}
		}
		if Classify(victim) != "complete" { // a single 1-bit litlen code
			victim[rng.Intn(256)] = 1
		}
		for _, s := range rng.Perm(len(victim)) { // shorten one code, or add a 1-bit code
			if victim[s] >= 2 {
				victim[s]--
				break
			}
		}
		if Classify(victim) != "over" {
			for _, s := range rng.Perm(len(victim)) {
				if victim[s] == 0 {
					victim[s] = 1
					break
				}
			}
		}
		if _, err := DynamicHeader(w, final, lit, dist, bd.dynOptions()); err != nil {
			return nil, err
		}
		return finish(nil, before)

	case "incompleteCode":
		toks := b.genToks(bd.tokCfg())
		lf, df := freqs(toks)
		lf[256]++
		lit, dist := b.code(bd.LShape, lf, 286), b.distCode(bd.DShape, df)
		for _, s := range rng.Perm(286) { // lengthen one code: Kraft sum drops below 1
			if lit[s] > 0 && lit[s] < 15 {
				lit[s]++
				break
			}
		}
		s, err := DynamicHeader(w, final, lit, dist, bd.dynOptions())
		if err != nil {
			return nil, err
		}
		if err := b.emit(s, toks); err != nil {
			return nil, err
		}
		return before, s.EOB()

	case "missingEOB":
		toks := b.genToks(tokCfg{kind: "lits", n: 1 + rng.Intn(8)})
		lf, _ := freqs(toks)
		// a code over the 285 symbols other than 256
		l := b.code(bd.LShape, append(lf[:256:256], lf[257:]...), 285)
		lit := append(append(l[:256:256], 0), l[256:]...)
		s, err := DynamicHeader(w, final, lit, b.distCode(bd.DShape, make([]int, 30)), bd.dynOptions())
		if err != nil {
			return nil, err
		}
		return before, b.emit(s, toks)

	case "hlitTooBig", "hdistTooBig":
		opt := bd.dynOptions()
		if kind == "hlitTooBig" {
			opt.HLit = 287 + rng.Intn(2)
		} else {
			opt.HDist = 31 + rng.Intn(2)
		}
		toks := b.genToks(bd.tokCfg())
		lf, df := freqs(toks)
		lf[256]++
		s, err := DynamicHeader(w, final, b.code(bd.LShape, lf, 286), b.distCode(bd.DShape, df), opt)
		if err != nil {
			return nil, err
		}
		if err := b.emit(s, toks); err != nil { // an otherwise decodable block follows
			return nil, err
		}
		return finish(s, before)

	case "repeatNoPrev":
		lit, dist, nlit, ndist := header(b.genToks(bd.tokCfg()))
		all := append(lit[:nlit:nlit], dist[:ndist]...)
		x := rng.Intn(4)
		seq := append([]CLSym{{16, uint32(x)}}, RLE(all[3+x:], bd.Repeat)...)
		HeaderSeq(w, final, nlit, ndist, seq, bd.FullHCLEN)
		return finish(nil, before)

	case "runPastCount":
		lit, dist, nlit, ndist := header(b.genToks(bd.tokCfg()))
		all := append(lit[:nlit:nlit], dist[:ndist]...)
		n := len(all)
		var cut int
		var run CLSym
		variant := rng.Intn(3)
		b.note = []string{"18", "16", "cross"}[variant]
		switch variant {
		case 0: // 138 zeros starting near the end
			cut, run = n-1-rng.Intn(100), CLSym{18, 127}
		case 1: // a copy of the previous length starting one or two before the end
			cut = n - 1 - rng.Intn(2)
			run = CLSym{16, uint32(rng.Intn(4))}
		default: // starts in the litlen lengths, covers all distance lengths and more
			cut = nlit - 1 - rng.Intn(5)
			run = CLSym{18, uint32(max(11, n-cut+1+rng.Intn(10)) - 11)}
		}
		HeaderSeq(w, final, nlit, ndist, append(RLE(all[:cut], bd.Repeat), run), bd.FullHCLEN)
		return finish(nil, before)

	case "crossRunEdge":
		return nil, b.crossRunEdge(bd, final)
	}
	return nil, fmt.Errorf("unknown fault kind")
}

// crossRunEdge writes a VALID dynamic block with HLit < 286 whose header has a
// repeat run that starts in the last litlen lengths and ends inside or exactly
// at the end of the distance lengths.
func (b *builder) crossRunEdge(bd BlockDesc, final bool) error {
	rng := b.rng
	cfg := bd.tokCfg()
	cfg.maxLen = 194 // keeps litlen symbols <= 282, leaving room below HLit 286
	variant := rng.Intn(3)
	if bd.DShape == "none" {
		variant = 2
	}
	b.note = []string{"16", "zeros-inside", "zeros-to-end"}[variant]
	var lit, dist []uint8
	var nlit, ndist int
	var seq []CLSym
	var toks []Tok
	zeroRun := func(z2 int) { // run of zeros over the declared-but-unused tail of lit and dist[:z2]
		used := lastUsed(lit)
		z1 := 1 + rng.Intn(min(20, 285-used))
		if z1+z2 < 3 {
			z1++
		}
		nlit, ndist = used+z1, max(lastUsed(dist), z2)
		if bd.MaxH && lastUsed(dist) > 0 {
			ndist = 30
		}
		run := CLSym{17, uint32(z1 + z2 - 3)}
		if z1+z2 > 10 {
			run = CLSym{18, uint32(z1 + z2 - 11)}
		}
		seq = append(append(RLE(lit[:used], bd.Repeat), run), RLE(dist[z2:ndist], bd.Repeat)...)
	}
	switch variant {
	case 0: // 16: ... v | v (last litlen), v, v (first two distance lengths)
		cfg.single = false
		toks = b.genToks(cfg)
		lf, df := freqs(toks)
		lf[256]++
		t1 := lastUsed(lensOf(lf)) // the pair sits right after the last used symbol
		v := 2 + rng.Intn(8)
		lit = pad(pairCode(rng, t1+2, usedSyms(lf), t1, t1+1, v, bd.LShape, 0, t1), 286)
		dist = pairCode(rng, 30, usedSyms(df), 0, 1, v, bd.DShape, 2, 30)
		if nlit, ndist = t1+2, lastUsed(dist); bd.MaxH {
			ndist = 30
		}
		seq = append(RLE(lit[:t1], bd.Repeat), CLSym{Sym: v}, CLSym{16, 0})
		seq = append(seq, RLE(dist[2:ndist], bd.Repeat)...)
	case 1: // zeros: tail of the litlen lengths and the first z2 distance lengths
		z2 := 1 + rng.Intn(4)
		cfg.minDist = distBase[z2]
		toks = b.genToks(cfg)
		lf, df := freqs(toks)
		lf[256]++
		lit = b.code(bd.LShape, lf, lastUsed(lensOf(lf)))
		dist = append(make([]uint8, z2), b.distCode(bd.DShape, df[z2:])...)
		zeroRun(z2)
	default: // zeros up to the very end: no distance codes at all
		cfg.litsOnly = true
		toks = b.genToks(cfg)
		lf, _ := freqs(toks)
		lf[256]++
		lit, dist = b.code(bd.LShape, lf, lastUsed(lensOf(lf))), make([]uint8, 30)
		zeroRun(1 + rng.Intn(30))
	}
	HeaderSeq(&b.w, final, nlit, ndist, seq, bd.FullHCLEN)
	s := NewSymWriter(&b.w, lit, dist)
	if err := b.emit(s, toks); err != nil {
		return err
	}
	return s.EOB()
}

// lensOf turns frequencies into a 0/1 slice usable with lastUsed.
func lensOf(freq []int) []uint8 {
	l := make([]uint8, len(freq))
	for i, f := range freq {
		if f > 0 {
			l[i] = 1
		}
	}
	return l
}

// pairCode returns a complete code over n symbols in which symbols a and b
// are siblings of length v (2..15) and every symbol of must is used. The path
// to the pair has one subtree hanging off at each depth 1..v-1; the other
// symbols (must plus fillers drawn from [fillLo,fillHi)) are spread over them.
func pairCode(rng *rand.Rand, n int, must []int, a, b, v int, shape string, fillLo, fillHi int) []uint8 {
	if !oneOf(shape, "flat", "skew", "random") {
		shape = "random"
	}
	lens := make([]uint8, n)
	lens[a], lens[b] = uint8(v), uint8(v)
	in := map[int]bool{a: true, b: true}
	var others, cand []int
	for _, s := range must {
		if !in[s] {
			in[s] = true
			others = append(others, s)
		}
	}
	for s := fillLo; s < fillHi; s++ {
		if !in[s] {
			cand = append(cand, s)
		}
	}
	rng.Shuffle(len(cand), func(i, j int) { cand[i], cand[j] = cand[j], cand[i] })
	extra := max(0, v-1-len(others)) // one symbol is needed for each depth
	extra += rng.Intn(min(4, len(cand)-extra) + 1)
	others = append(others, cand[:extra]...)
	rng.Shuffle(len(others), func(i, j int) { others[i], others[j] = others[j], others[i] })
	groups := make([][]int, v)
	for i, s := range others {
		j := i + 1 // one symbol for each depth first
		if i >= v-1 {
			for j = 1 + rng.Intn(v-1); len(groups[j]) >= 1<<(15-j); j = j%(v-1) + 1 {
			}
		}
		groups[j] = append(groups[j], s)
	}
	for j := 1; j < v; j++ {
		g := groups[j]
		if len(g) == 1 {
			lens[g[0]] = uint8(j)
			continue
		}
		sub := RandomComplete(rng, len(g), rng.Perm(len(g)), 15-j, shape)
		for i, s := range g {
			lens[s] = uint8(j) + sub[i]
		}
	}
	return lens
}

func randomBlock(rng *rand.Rand, maxN int) BlockDesc {
	pick := func(s ...string) string { return s[rng.Intn(len(s))] }
	flag := func(n int) bool { return rng.Intn(n) == 0 }
	b := BlockDesc{
		Type:   pick("stored", "fixed", "dyn", "dyn", "dyn"),
		LShape: pick("flat", "skew", "random", "freq"),
		DShape: pick("flat", "skew", "random", "freq", "single", "none"),
		Toks:   pick("empty", "lits", "near", "far", "long", "mixed", "mixed"),
		Repeat: !flag(3), Cross: flag(2), FullHCLEN: flag(3), MaxH: flag(4), SyncBefore: flag(3),
	}
	if b.N = rng.Intn(maxN + 1); flag(2) {
		b.N = rng.Intn(min(maxN, 64) + 1)
	}
	if b.Type == "stored" {
		b.N = min(b.N, 65535)
	}
	b.WorstCL, b.Alt258 = flag(4), flag(3)
	b.ZeroSplit = flag(3)
	if flag(4) {
		b.Dup = 1 + rng.Intn(2)
	}
	return b
}

// RandomDesc returns a valid descriptor of 1..maxBlocks blocks with up to maxN
// tokens each.
func RandomDesc(rng *rand.Rand, maxBlocks, maxN int) Desc {
	d := Desc{Seed: rng.Int63()}
	for n := 1 + rng.Intn(maxBlocks); n > 0; n-- {
		d.Blocks = append(d.Blocks, randomBlock(rng, maxN))
	}
	return d
}

// RandomFaultDesc returns a descriptor with a fault of the given kind in its
// last block. With later the faulty block follows one or two valid blocks, at
// least one of them dyn; otherwise it is the first block, except for
// "staleDist", which always needs one dyn block before it. It panics on an
// unknown kind.
func RandomFaultDesc(rng *rand.Rand, kind string, later bool) Desc {
	types, ok := faultTypes[kind]
	if !ok {
		panic("synth: unknown fault kind " + kind)
	}
	d := Desc{Seed: rng.Int63()}
	if later {
		for n := 1 + rng.Intn(2); n > 0; n-- {
			d.Blocks = append(d.Blocks, randomBlock(rng, 40))
		}
		d.Blocks[rng.Intn(len(d.Blocks))].Type = "dyn"
	}
	if kind == "staleDist" {
		if !later {
			d.Blocks = append(d.Blocks, randomBlock(rng, 40))
		}
		d.Blocks[len(d.Blocks)-1].Type = "dyn"
	}
	fb := randomBlock(rng, 60)
	w := splitWords(types)
	fb.Type = w[rng.Intn(len(w))]
	d.Fault = &Fault{Kind: kind, Block: len(d.Blocks)}
	d.Blocks = append(d.Blocks, fb)
	return d
}
