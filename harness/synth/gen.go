package synth

import (
	"fmt"
	"math/rand"
)

// RandomComplete returns lengths for n symbols forming a COMPLETE prefix code
// with maximum length <= maxLen (<= 15). All symbols in must get a non-zero
// length; others may be zero. Shapes:
//
//	"flat"   as balanced as possible over a random subset of symbols that includes must
//	"skew"   maximally skewed, reaching exactly maxLen: lengths 1,2,..,maxLen-1,maxLen,maxLen
//	         over a random ordering of the used symbols (if must has more than maxLen+1
//	         symbols, the shallowest leaves are split until there are enough; if
//	         n < maxLen+1 the depth is n-1)
//	"random" random split of the Kraft budget (random complete tree with depth limit)
//	"two"    exactly two symbols of length 1
//
// It panics if the request is impossible (n < 2, must larger than n or than
// 2^maxLen, more than two must symbols for "two", unknown shape).
func RandomComplete(rng *rand.Rand, n int, must []int, maxLen int, shape string) []uint8 {
	maxLen = min(maxLen, 15)
	isMust := make([]bool, n)
	var m []int
	for _, s := range must {
		if !isMust[s] {
			isMust[s] = true
			m = append(m, s)
		}
	}
	limit := min(n, 1<<maxLen)
	lo := max(2, len(m))
	if n < 2 || maxLen < 1 || lo > limit {
		panic(fmt.Sprintf("synth: RandomComplete(n=%d, must=%d, maxLen=%d) impossible", n, len(m), maxLen))
	}
	split := func(ls []uint8, i int) []uint8 {
		ls[i]++
		return append(ls, ls[i])
	}
	var ls []uint8 // multiset of code lengths
	switch shape {
	case "two":
		if len(m) > 2 {
			panic("synth: shape \"two\" with more than two required symbols")
		}
		ls = []uint8{1, 1}
	case "flat":
		k := lo + rng.Intn(limit-lo+1)
		d := 0
		for 1<<d < k {
			d++
		}
		for i := 0; i < k; i++ {
			if i < 1<<d-k {
				ls = append(ls, uint8(d-1))
			} else {
				ls = append(ls, uint8(d))
			}
		}
	case "skew":
		depth := min(maxLen, n-1)
		for l := 1; l <= depth; l++ {
			ls = append(ls, uint8(l))
		}
		ls = append(ls, uint8(depth))
		for len(ls) < lo {
			best := 0
			for i, l := range ls {
				if l < ls[best] {
					best = i
				}
			}
			ls = split(ls, best)
		}
	case "random":
		k := lo + rng.Intn(limit-lo+1)
		ls = []uint8{1, 1}
		for len(ls) < k {
			i := rng.Intn(len(ls))
			for try := 0; int(ls[i]) >= maxLen; try++ {
				if i = rng.Intn(len(ls)); try > 30 {
					for i = 0; int(ls[i]) >= maxLen; i++ {
					}
				}
			}
			ls = split(ls, i)
		}
	default:
		panic("synth: unknown shape " + shape)
	}
	// pick the used symbols: must plus random others, in random order
	var others []int
	for s := 0; s < n; s++ {
		if !isMust[s] {
			others = append(others, s)
		}
	}
	rng.Shuffle(len(others), func(i, j int) { others[i], others[j] = others[j], others[i] })
	used := append(m, others[:len(ls)-len(m)]...)
	rng.Shuffle(len(used), func(i, j int) { used[i], used[j] = used[j], used[i] })
	out := make([]uint8, n)
	for i, s := range used {
		out[s] = ls[i]
	}
	return out
}

// LensFromFreq computes Huffman code lengths limited to maxLen from symbol
// frequencies (freq[i]==0 means unused). The depth limit is enforced by
// flattening the frequencies and rebuilding, so the code is always complete
// when at least two symbols are used. One used symbol gets length 1 (an
// incomplete "single" code); none used gives all zeros.
func LensFromFreq(freq []int, maxLen int) []uint8 {
	out := make([]uint8, len(freq))
	var syms, w []int
	for s, f := range freq {
		if f > 0 {
			syms, w = append(syms, s), append(w, f)
		}
	}
	switch {
	case len(syms) == 0:
		return out
	case len(syms) == 1:
		out[syms[0]] = 1
		return out
	case len(syms) > 1<<maxLen:
		panic("synth: too many symbols for the length limit")
	}
	for round := 0; ; round++ {
		depth := huffman(w)
		deepest := 0
		for _, d := range depth {
			deepest = max(deepest, d)
		}
		if deepest <= maxLen {
			for i, s := range syms {
				out[s] = uint8(depth[i])
			}
			return out
		}
		for i := range w {
			if w[i] = w[i]/2 + 1; round > 40 {
				w[i] = 1
			}
		}
	}
}

// huffman returns the leaf depths of a Huffman tree over the weights (>= 2 of them).
func huffman(w []int) []int {
	n := len(w)
	weight := append([]int{}, w...)
	parent := make([]int, n, 2*n)
	alive := make([]int, n)
	for i := range alive {
		alive[i] = i
	}
	for len(alive) > 1 {
		// move the two lightest nodes to the end
		for k := 1; k <= 2; k++ {
			best := 0
			for i := range alive[:len(alive)-k+1] {
				if weight[alive[i]] < weight[alive[best]] {
					best = i
				}
			}
			last := len(alive) - k
			alive[best], alive[last] = alive[last], alive[best]
		}
		a, b := alive[len(alive)-1], alive[len(alive)-2]
		p := len(weight)
		weight = append(weight, weight[a]+weight[b])
		parent = append(parent, 0)
		parent[a], parent[b] = p, p
		alive = append(alive[:len(alive)-2], p)
	}
	depth := make([]int, len(weight))
	for i := len(weight) - 2; i >= 0; i-- {
		depth[i] = depth[parent[i]] + 1
	}
	return depth[:n]
}

// Tokenize greedily turns data into literals and matches using 3-byte hash
// chains. maxDist limits the distances (capped at 32768; <= 0 gives literals
// only). Matches may overlap their own output (dist < len).
func Tokenize(data []byte, maxDist int) []Tok {
	maxDist = min(maxDist, 32768)
	const hbits = 15
	head := make([]int32, 1<<hbits)
	for i := range head {
		head[i] = -1
	}
	prev := make([]int32, len(data))
	hash := func(i int) uint32 {
		return (uint32(data[i]) | uint32(data[i+1])<<8 | uint32(data[i+2])<<16) * 0x9E3779B1 >> (32 - hbits)
	}
	insert := func(i int) {
		if i+3 <= len(data) {
			h := hash(i)
			prev[i] = head[h]
			head[h] = int32(i)
		}
	}
	var toks []Tok
	for i := 0; i < len(data); {
		bestLen, bestDist := 0, 0
		if i+3 <= len(data) && maxDist > 0 {
			limit := min(258, len(data)-i)
			for c, chain := head[hash(i)], 0; c >= 0 && i-int(c) <= maxDist && chain < 24; c, chain = prev[c], chain+1 {
				l := 0
				for l < limit && data[int(c)+l] == data[i+l] {
					l++
				}
				if l > bestLen {
					bestLen, bestDist = l, i-int(c)
				}
			}
		}
		if bestLen < 3 {
			toks = append(toks, Lit(data[i]))
			insert(i)
			i++
			continue
		}
		toks = append(toks, Match(bestLen, bestDist))
		for end := i + bestLen; i < end; i++ {
			insert(i)
		}
	}
	return toks
}

// Expand replays tokens to bytes, the expected output of a token list. Matches
// may reach into dict. It panics on a distance beyond dict plus output.
func Expand(dict []byte, toks []Tok) []byte {
	out := []byte{}
	for _, t := range toks {
		if t.Lit >= 0 {
			out = append(out, byte(t.Lit))
			continue
		}
		if t.Dist > len(dict)+len(out) {
			panic(fmt.Sprintf("synth: Expand: distance %d beyond %d available bytes", t.Dist, len(dict)+len(out)))
		}
		for i := 0; i < t.Len; i++ {
			if p := len(out) - t.Dist; p >= 0 {
				out = append(out, out[p])
			} else {
				out = append(out, dict[len(dict)+p])
			}
		}
	}
	return out
}
