// Package synth builds raw DEFLATE (RFC 1951) streams bit by bit, including
// deliberately malformed ones, for testing inflaters.
package synth

import (
	"errors"
	"fmt"
)

// BitWriter packs bits LSB first as RFC 1951 3.1.1 prescribes.
type BitWriter struct {
	buf []byte
	n   int64
}

func (w *BitWriter) bit(b uint32) {
	if w.n&7 == 0 {
		w.buf = append(w.buf, 0)
	}
	w.buf[w.n>>3] |= byte(b&1) << (w.n & 7)
	w.n++
}

// Bits writes n (0..32) bits of v, least-significant bit first.
func (w *BitWriter) Bits(v uint32, n int) {
	for i := 0; i < n; i++ {
		w.bit(v >> i)
	}
}

// Code writes a Huffman code of n bits, most-significant bit first.
func (w *BitWriter) Code(code uint32, n int) {
	for i := n - 1; i >= 0; i-- {
		w.bit(code >> i)
	}
}

// Align pads with zero bits to a byte boundary.
func (w *BitWriter) Align() { w.n = (w.n + 7) &^ 7 }

// BitLen is the number of bits written so far.
func (w *BitWriter) BitLen() int64 { return w.n }

// Bytes returns a copy of the stream, the last partial byte zero padded.
func (w *BitWriter) Bytes() []byte { return append([]byte{}, w.buf...) }

// Tok is a literal (Lit 0..255, Len 0) or a match (Lit -1, Len 3..258, Dist 1..32768).
//
// Alt selects the other way of writing length 258: symbol 284 with extra bits
// 31 (227+31) instead of symbol 285. RFC 1951 assigns 258 to symbol 285, but
// zlib, compress/flate and every inflater derived from them decode 284+31 as
// 258 as well, so a stream may contain it.
type Tok struct {
	Lit, Len, Dist int
	Alt            bool
}

// TokLenSym is LenSym for a token, honouring Alt.
func TokLenSym(t Tok) (sym int, extraBits int, extraVal uint32) {
	if t.Alt && t.Len == 258 {
		return 284, 5, 31
	}
	return LenSym(t.Len)
}

func Lit(b byte) Tok             { return Tok{Lit: int(b)} }
func Match(length, dist int) Tok { return Tok{Lit: -1, Len: length, Dist: dist} }
func (t Tok) String() string     { return fmt.Sprintf("{%d %d %d}", t.Lit, t.Len, t.Dist) }

func boolBit(b bool) uint32 {
	if b {
		return 1
	}
	return 0
}

// pad returns a copy of l zero-extended to at least n entries.
func pad(l []uint8, n int) []uint8 {
	return append(append(make([]uint8, 0, n), l...), make([]uint8, max(0, n-len(l)))...)
}

// Code is a canonical Huffman code (RFC 1951 3.2.2).
type Code struct {
	Len  []uint8
	Bits []uint32
}

// Canonical assigns codes from lengths; lengths[i]==0 means symbol i is unused.
// For over-subscribed lengths the codes overflow their width (garbage, but the
// lengths are still usable for writing a malformed header).
func Canonical(lengths []uint8) Code {
	var count, next [17]uint32
	for _, l := range lengths {
		count[l]++
	}
	count[0] = 0
	var code uint32
	for l := 1; l <= 16; l++ {
		code = (code + count[l-1]) << 1
		next[l] = code
	}
	c := Code{Len: append([]uint8{}, lengths...), Bits: make([]uint32, len(lengths))}
	for s, l := range lengths {
		if l > 0 {
			c.Bits[s] = next[l]
			next[l]++
		}
	}
	return c
}

// KraftSum returns the sum of 2^-len over the used symbols as num/den, den = 1<<15.
func KraftSum(lengths []uint8) (num, den uint64) {
	for _, l := range lengths {
		if l > 0 {
			num += 1 << (15 - l)
		}
	}
	return num, 1 << 15
}

// Classify returns "empty" (no symbol used), "single" (exactly one symbol used,
// whatever its length), "incomplete", "complete" or "over".
func Classify(lengths []uint8) string {
	used := 0
	for _, l := range lengths {
		if l > 0 {
			used++
		}
	}
	num, den := KraftSum(lengths)
	switch {
	case used == 0:
		return "empty"
	case num > den:
		return "over"
	case used == 1:
		return "single"
	case num < den:
		return "incomplete"
	}
	return "complete"
}

var lenBase, lenBits, distBase, distBits = tables()

func tables() (lb, le, db, de []int) {
	// 3.2.5: eight length codes without extra bits, then groups of four with
	// 1..5 extra bits; code 285 is length 258 without extra bits.
	for l, s := 3, 0; s < 28; s++ {
		e := max(0, s/4-1)
		lb, le = append(lb, l), append(le, e)
		l += 1 << e
	}
	lb, le = append(lb, 258), append(le, 0)
	// four distance codes without extra bits, then pairs with 1..13 extra bits
	for d, s := 1, 0; s < 30; s++ {
		e := max(0, s/2-1)
		db, de = append(db, d), append(de, e)
		d += 1 << e
	}
	return
}

// LenSym maps a match length (3..258) to its symbol (257..285) and extra bits.
func LenSym(length int) (sym int, extraBits int, extraVal uint32) {
	if length < 3 || length > 258 {
		panic(fmt.Sprintf("synth: match length %d", length))
	}
	s := 28
	if length < 258 {
		for s = 27; lenBase[s] > length; s-- {
		}
	}
	return 257 + s, lenBits[s], uint32(length - lenBase[s])
}

// DistSym maps a distance (1..32768) to its symbol (0..29) and extra bits.
func DistSym(dist int) (sym int, extraBits int, extraVal uint32) {
	if dist < 1 || dist > 32768 {
		panic(fmt.Sprintf("synth: match distance %d", dist))
	}
	s := 29
	for distBase[s] > dist {
		s--
	}
	return s, distBits[s], uint32(dist - distBase[s])
}

// SymWriter emits symbols with a bound pair of codes.
type SymWriter struct {
	W    *BitWriter
	Lit  Code
	Dist Code
}

// NewSymWriter binds canonical codes for the given lengths to w.
func NewSymWriter(w *BitWriter, litLens, distLens []uint8) *SymWriter {
	return &SymWriter{W: w, Lit: Canonical(litLens), Dist: Canonical(distLens)}
}

// LitLenSym emits a raw literal/length symbol (0..287), no extra bits.
func (s *SymWriter) LitLenSym(sym int) error {
	if sym < 0 || sym >= len(s.Lit.Len) || s.Lit.Len[sym] == 0 {
		return fmt.Errorf("synth: litlen symbol %d has no code", sym)
	}
	s.W.Code(s.Lit.Bits[sym], int(s.Lit.Len[sym]))
	return nil
}

// LenExtra emits the extra bits of a length symbol.
func (s *SymWriter) LenExtra(bits int, v uint32) { s.W.Bits(v, bits) }

// DistSymRaw emits a raw distance symbol (0..31) followed by extra bits.
func (s *SymWriter) DistSymRaw(sym int, extraBits int, v uint32) error {
	if sym < 0 || sym >= len(s.Dist.Len) || s.Dist.Len[sym] == 0 {
		return fmt.Errorf("synth: distance symbol %d has no code", sym)
	}
	s.W.Code(s.Dist.Bits[sym], int(s.Dist.Len[sym]))
	s.W.Bits(v, extraBits)
	return nil
}

// RawCode emits an arbitrary bit pattern MSB first, e.g. an unassigned code.
func (s *SymWriter) RawCode(code uint32, n int) { s.W.Code(code, n) }

// EOB emits symbol 256.
func (s *SymWriter) EOB() error { return s.LitLenSym(256) }

// Tok emits a literal or a match. Nothing is written if a code is missing.
func (s *SymWriter) Tok(t Tok) error {
	if t.Lit >= 0 {
		if t.Lit > 255 || t.Len != 0 {
			return fmt.Errorf("synth: bad literal token %v", t)
		}
		return s.LitLenSym(t.Lit)
	}
	ls, lb, lv := TokLenSym(t)
	ds, db, dv := DistSym(t.Dist)
	if ds >= len(s.Dist.Len) || s.Dist.Len[ds] == 0 {
		return fmt.Errorf("synth: distance symbol %d has no code", ds)
	}
	if err := s.LitLenSym(ls); err != nil {
		return err
	}
	s.LenExtra(lb, lv)
	return s.DistSymRaw(ds, db, dv)
}

func (s *SymWriter) toks(toks []Tok) error {
	for _, t := range toks {
		if err := s.Tok(t); err != nil {
			return err
		}
	}
	return s.EOB()
}

// StoredRaw writes a stored block with explicit LEN and NLEN fields.
func StoredRaw(w *BitWriter, final bool, length, nlength uint16, data []byte) {
	w.Bits(boolBit(final), 1)
	w.Bits(0, 2)
	w.Align()
	w.Bits(uint32(length), 16)
	w.Bits(uint32(nlength), 16)
	w.buf = append(w.buf, data...) // byte aligned here
	w.n += int64(len(data)) * 8
}

// Stored writes a well-formed stored block; len(data) must be <= 65535.
func Stored(w *BitWriter, final bool, data []byte) {
	if len(data) > 65535 {
		panic("synth: stored block too long")
	}
	StoredRaw(w, final, uint16(len(data)), ^uint16(len(data)), data)
}

// SyncMarker writes an empty non-final stored block (00 00 FF FF after padding).
func SyncMarker(w *BitWriter) { Stored(w, false, nil) }

// FixedLens returns the code lengths of the fixed codes (288 and 32 symbols).
func FixedLens() (lit, dist []uint8) {
	lit, dist = make([]uint8, 288), make([]uint8, 32)
	for i := range lit {
		lit[i] = 8
		if i >= 144 && i < 256 {
			lit[i] = 9
		} else if i >= 256 && i < 280 {
			lit[i] = 7
		}
	}
	for i := range dist {
		dist[i] = 5
	}
	return
}

// FixedRaw writes only the header of a fixed-Huffman block.
func FixedRaw(w *BitWriter, final bool) *SymWriter {
	w.Bits(boolBit(final), 1)
	w.Bits(1, 2)
	lit, dist := FixedLens()
	return NewSymWriter(w, lit, dist)
}

// Fixed writes a fixed-Huffman block with the tokens and EOB.
func Fixed(w *BitWriter, final bool, toks []Tok) {
	if err := FixedRaw(w, final).toks(toks); err != nil {
		panic(err)
	}
}

// DynOptions control how a dynamic header is encoded.
type DynOptions struct {
	UseRepeat     bool // use symbols 16/17/18 (greedy RLE); false = one length per symbol
	CrossBoundary bool // with UseRepeat: let a run span the literal/distance boundary (legal per RFC)
	HLit, HDist   int  // number of litlen (257..286) / dist (1..30) codes to declare; 0 = minimal
	FullHCLEN     bool // declare all 19 code-length codes instead of trimming trailing zeros
	WorstCL       bool // the most wasteful complete code-length code: 7 bits for every length value used
	// ZeroSplit: with UseRepeat, a run of zero lengths is not written greedily with 17/18 alone:
	// part of it is written as "repeat the previous length" (16) directly after a 17/18 item or
	// after an explicit 0 - legal, since the previous length IS zero, but no common encoder does it
	ZeroSplit bool
}

// CLSym is a code-length symbol (0..18) with the value of its extra bits.
type CLSym struct {
	Sym   int
	Extra uint32
}

var clOrder = [19]int{16, 17, 18, 0, 8, 7, 9, 6, 10, 5, 11, 4, 12, 3, 13, 2, 14, 1, 15}
var clExtra = map[int]int{16: 2, 17: 3, 18: 7}

// DynamicHeaderRaw writes BFINAL, BTYPE=2 and a dynamic header under full
// control of the caller. hlit, hdist and hclen are the raw field values as
// stored in the stream (HLIT = codes-257, HDIST = codes-1, HCLEN = codes-4).
// clLens are the code-length-code lengths in natural symbol order 0..18; the
// first hclen+4 in RFC transmission order are written. seq is then encoded
// with the canonical code of clLens. It panics if seq uses a symbol whose
// length is 0.
func DynamicHeaderRaw(w *BitWriter, final bool, hlit, hdist, hclen int, clLens [19]uint8, seq []CLSym) {
	w.Bits(boolBit(final), 1)
	w.Bits(2, 2)
	w.Bits(uint32(hlit), 5)
	w.Bits(uint32(hdist), 5)
	w.Bits(uint32(hclen), 4)
	for i := 0; i < hclen+4 && i < 19; i++ {
		w.Bits(uint32(clLens[clOrder[i]]), 3)
	}
	c := Canonical(clLens[:])
	for _, s := range seq {
		if s.Sym < 0 || s.Sym > 18 || c.Len[s.Sym] == 0 {
			panic(fmt.Sprintf("synth: code-length symbol %d has no code", s.Sym))
		}
		w.Code(c.Bits[s.Sym], int(c.Len[s.Sym]))
		w.Bits(s.Extra, clExtra[s.Sym])
	}
}

// RLE encodes code lengths as code-length symbols. With useRepeat it greedily
// uses 16/17/18; runs never cross the positions listed in breaks.
func RLE(lens []uint8, useRepeat bool, breaks ...int) []CLSym {
	return rle(lens, useRepeat, false, breaks...)
}

// RLEZeroSplit is RLE with zero runs of seven or more split into a 17/18 item for the first
// part (or an explicit 0) and 16 items ("repeat the previous length", which is 0) for the rest.
func RLEZeroSplit(lens []uint8, breaks ...int) []CLSym {
	return rle(lens, true, true, breaks...)
}

func rle(lens []uint8, useRepeat, zeroSplit bool, breaks ...int) []CLSym {
	var seq []CLSym
	isBreak := func(i int) bool {
		for _, b := range breaks {
			if b == i {
				return true
			}
		}
		return false
	}
	for i := 0; i < len(lens); {
		v := lens[i]
		run := 1
		for i+run < len(lens) && lens[i+run] == v && !isBreak(i+run) {
			run++
		}
		if !useRepeat || run < 3 || v != 0 && run < 4 {
			seq = append(seq, CLSym{Sym: int(v)})
			i++
			continue
		}
		if v != 0 { // 16 repeats the previous length, so emit one first
			seq = append(seq, CLSym{Sym: int(v)})
			i++
			run--
		}
		if v == 0 && zeroSplit && run >= 7 {
			// first part: 17 (3..10 zeros), 18 (11..) or one explicit zero, by the shape of the run
			first := 3 + run%3
			switch {
			case run%2 == 0 && run >= 17:
				first = 11 + run%5
				seq = append(seq, CLSym{18, uint32(first - 11)})
			case run%3 == 0:
				first = 1
				seq = append(seq, CLSym{Sym: 0})
			default:
				seq = append(seq, CLSym{17, uint32(first - 3)})
			}
			i += first
			run -= first
			for run >= 3 { // the rest as repeats of the previous (zero) length
				n := min(run, 6)
				seq = append(seq, CLSym{16, uint32(n - 3)})
				i += n
				run -= n
			}
			continue
		}
		for run >= 3 { // a shorter rest is emitted as plain lengths
			n := min(run, 6)
			switch {
			case v != 0:
				seq = append(seq, CLSym{16, uint32(n - 3)})
			case run >= 11:
				n = min(run, 138)
				seq = append(seq, CLSym{18, uint32(n - 11)})
			default:
				n = min(run, 10)
				seq = append(seq, CLSym{17, uint32(n - 3)})
			}
			i += n
			run -= n
		}
	}
	return seq
}

// HeaderSeq writes BFINAL, BTYPE=2 and a dynamic header declaring nlit and
// ndist codes (counts, not field values) whose code lengths are sent as seq.
// The code-length code is a Huffman code for the symbols of seq (always
// complete); all 19 of its lengths are sent if full, else trailing zeros in
// transmission order are trimmed. seq itself is not checked in any way.
func HeaderSeq(w *BitWriter, final bool, nlit, ndist int, seq []CLSym, full bool) {
	HeaderSeqCL(w, final, nlit, ndist, seq, full, false)
}

// WorstCLCode returns a complete code-length code in which every symbol with
// a non-zero frequency has the longest code possible (7 bits where the Kraft
// budget allows) and the short codes go to symbols that are never used: the
// encoding that makes a dynamic header as long as the format permits (up to
// 17 + 19*3 + 316*7 bits = 286 bytes).
func WorstCLCode(freq []int) []uint8 {
	cl := make([]uint8, 19)
	type sf struct{ s, f int }
	var used []sf
	for s, f := range freq {
		if f > 0 {
			used = append(used, sf{s, f})
		}
	}
	// rarest first: they are shortened first when the unused symbols cannot absorb the budget
	for i := range used {
		for j := i + 1; j < len(used); j++ {
			if used[j].f < used[i].f {
				used[i], used[j] = used[j], used[i]
			}
		}
	}
	for _, u := range used {
		cl[u.s] = 7
	}
	for round := 0; round < 200; round++ {
		units := 0 // Kraft sum in units of 2^-7
		var unused []int
		for s, l := range cl {
			if l > 0 {
				units += 1 << (7 - l)
			} else {
				unused = append(unused, s)
			}
		}
		rest := 128 - units
		need := 0
		for b := 0; b < 7; b++ {
			if rest>>b&1 == 1 {
				need++
			}
		}
		if rest >= 0 && need <= len(unused) {
			k := 0
			for b := 6; b >= 0; b-- {
				if rest>>b&1 == 1 {
					cl[unused[k]] = uint8(7 - b)
					k++
				}
			}
			return cl
		}
		// shorten the rarest used symbol that can still be shortened
		for _, u := range used {
			if cl[u.s] > 1 {
				cl[u.s]--
				break
			}
		}
	}
	return LensFromFreq(freq, 7)
}

// HeaderSeqCL is HeaderSeq with the choice of the code-length code: the
// Huffman code of the symbols of seq, or (worst) WorstCLCode.
func HeaderSeqCL(w *BitWriter, final bool, nlit, ndist int, seq []CLSym, full, worst bool) {
	freq := make([]int, 19)
	for _, s := range seq {
		freq[s.Sym]++
	}
	cl := LensFromFreq(freq, 7)
	if worst {
		cl = WorstCLCode(freq)
	}
	for i := 0; Classify(cl) == "single" || Classify(cl) == "empty"; i++ {
		if cl[i] == 0 { // make the code-length code complete
			cl[i] = 1
		}
	}
	hclen := 19
	for !full && hclen > 4 && cl[clOrder[hclen-1]] == 0 {
		hclen--
	}
	DynamicHeaderRaw(w, final, nlit-257, ndist-1, hclen-4, [19]uint8(cl), seq)
}

// DynamicHeader writes the block header and the dynamic header for the given
// code lengths (litLens up to 288 entries, distLens up to 32; shorter slices
// are zero padded) and returns a SymWriter bound to those codes. The lengths
// are not checked for completeness, so malformed codes can be declared.
func DynamicHeader(w *BitWriter, final bool, litLens, distLens []uint8, opt DynOptions) (*SymWriter, error) {
	if len(litLens) > 288 || len(distLens) > 32 {
		return nil, errors.New("synth: too many code lengths")
	}
	for _, l := range append(append([]uint8{}, litLens...), distLens...) {
		if l > 15 {
			return nil, fmt.Errorf("synth: code length %d", l)
		}
	}
	lastUsed := func(l []uint8) int {
		n := 0
		for i, v := range l {
			if v > 0 {
				n = i + 1
			}
		}
		return n
	}
	nlit, ndist := max(257, lastUsed(litLens)), max(1, lastUsed(distLens))
	if opt.HLit != 0 {
		if opt.HLit < nlit || opt.HLit > 288 {
			return nil, fmt.Errorf("synth: HLit %d does not cover %d used codes", opt.HLit, nlit)
		}
		nlit = opt.HLit
	}
	if opt.HDist != 0 {
		if opt.HDist < ndist || opt.HDist > 32 {
			return nil, fmt.Errorf("synth: HDist %d does not cover %d used codes", opt.HDist, ndist)
		}
		ndist = opt.HDist
	}
	all := append(pad(litLens, nlit)[:nlit:nlit], pad(distLens, ndist)[:ndist]...)
	var seq []CLSym
	switch {
	case opt.UseRepeat && opt.ZeroSplit && !opt.CrossBoundary:
		seq = RLEZeroSplit(all, nlit)
	case opt.UseRepeat && opt.ZeroSplit:
		seq = RLEZeroSplit(all)
	case opt.UseRepeat && !opt.CrossBoundary:
		seq = RLE(all, true, nlit)
	default:
		seq = RLE(all, opt.UseRepeat)
	}
	HeaderSeqCL(w, final, nlit, ndist, seq, opt.FullHCLEN, opt.WorstCL)
	return NewSymWriter(w, pad(litLens, nlit), pad(distLens, ndist)), nil
}

// Dynamic writes a dynamic block with the given code lengths and tokens, then
// EOB. It returns an error, before writing anything, if a token (or EOB)
// needs a symbol whose length is 0.
func Dynamic(w *BitWriter, final bool, litLens, distLens []uint8, toks []Tok, opt DynOptions) error {
	var scratch BitWriter
	if err := NewSymWriter(&scratch, litLens, distLens).toks(toks); err != nil {
		return err
	}
	s, err := DynamicHeader(w, final, litLens, distLens, opt)
	if err != nil {
		return err
	}
	return s.toks(toks)
}
