module verif/harness

go 1.23

require github.com/intel/fastgo v0.0.0

replace github.com/intel/fastgo => /repo
