package main

import (
	"bytes"
	"encoding/hex"
	"fmt"
	"math/rand"
	"os"
	"strings"
	"time"

	"verif/harness/synth"
)

// readerRun executes reader cases on the standard library (R3) and on fastgo,
// validates both traces against ReaderContract and reports.
func (c *Ctx) readerRun(name string, cases []*RCase, withStd bool) (int, error) {
	byID := map[string]Case{}
	var fg, std []Case
	if only := os.Getenv("VERIF_ONLY"); only != "" {
		var keep []*RCase
		for _, cs := range cases {
			if strings.Contains(cs.ID, only) {
				keep = append(keep, cs)
			}
		}
		cases = keep
	}
	reg, err := c.regressCases()
	if err != nil {
		return 0, err
	}
	for _, r := range reg {
		if w, ok := r.(*RCase); ok {
			cases = append(cases, w)
		}
	}
	top := c.Levels[len(c.Levels)-1]
	stdByID := map[string]*RCase{}
	for _, cs := range cases {
		cs.Family, cs.Impl = "reader", "fastgo"
		if c.mech && cs.Kind == "flate" && len(fg)%4 == 0 {
			cs.Mech = true // every fourth flate case also records the Reader's mechanism events
		}
		if _, dup := byID[cs.ID]; dup {
			return 0, fmt.Errorf("duplicate case id %s", cs.ID)
		}
		byID[cs.ID] = cs
		fg = append(fg, cs)
		if withStd && cs.Arch == top {
			s := *cs
			s.Impl, s.ID, s.Arch = "std", "std:"+cs.ID, c.Host
			if s.Group != "" {
				s.Group = "std:" + s.Group
			}
			std = append(std, &s)
			stdByID[s.ID] = &s
		}
	}
	if len(std) > 0 {
		t0 := time.Now()
		trace, err := c.Execute(name+"-std", std, false)
		if err != nil {
			return 0, err
		}
		viols, _, err := c.Validate("ReaderTrace", "TV_Reader.cfg", trace, false)
		if err != nil {
			return 0, err
		}
		bad := 0
		for _, v := range viols {
			for _, cl := range v.Clauses {
				if stdTolerated[cl] {
					continue
				}
				if cl == "C11.no_wait" && strings.Contains(v.Event, `"ev":"Gate"`) {
					// compress/gzip holds the last bytes of a member while it looks for the trailer and the
					// next member (DESIGN R3 (iii)); fastgo is held to the property as written
					if sc, ok := stdByID[v.Case]; ok && sc.Kind == "gzip" {
						continue
					}
				}
				bad++
				if bad <= 5 {
					c.logf("R3: the contract rejects the standard library: clause %s case %s event %s", cl, v.Case, v.Event)
				}
			}
		}
		if bad > 0 {
			return 0, fmt.Errorf("the contract rejects %d events of the standard library's own traces: specification or harness error, no verdict", bad)
		}
		c.ev.StdTraces += len(std)
		c.logf("R3: %d standard-library traces accepted (%.1fs)", len(std), time.Since(t0).Seconds())
	}
	t0 := time.Now()
	trace, err := c.Execute(name, fg, false)
	if err != nil {
		return 0, err
	}
	t1 := time.Now()
	viols, nev, err := c.Validate("ReaderTrace", "TV_Reader.cfg", trace, true)
	if err != nil {
		return 0, err
	}
	for _, v := range viols {
		for _, cl := range v.Clauses {
			if strings.HasPrefix(cl, "HARNESS.") {
				return 0, fmt.Errorf("harness sanity clause %s failed in case %s: %s", cl, v.Case, v.Event)
			}
		}
	}
	if err := c.readerMechDrift(trace); err != nil {
		return 0, err
	}
	c.ev.Traces += len(fg)
	c.ev.Evaluations += len(fg)
	c.logf("%s: %d cases executed (%.1fs), %d events validated (%.1fs), %d violating events", name, len(fg), t1.Sub(t0).Seconds(), nev, time.Since(t1).Seconds(), len(viols))
	return c.Report(viols, byID, "ReaderTrace", "TV_Reader.cfg")
}

// readerModels model-checks the design-level reader specifications: ReaderMech with its own
// invariants, and ReaderMech under the monitor that judges it by ReaderContract's clauses.
func (c *Ctx) readerModels() error {
	if err := c.ModelCheck("MCR", "MC_ReaderMech.cfg", 10*time.Minute); err != nil {
		return err
	}
	return c.ModelCheck("ReaderRefine", "MC_ReaderRefine.cfg", 10*time.Minute)
}

// readerMechDrift validates the Reader's hook events against ReaderMechTrace (MODEL-DRIFT, never a verdict).
func (c *Ctx) readerMechDrift(trace string) error {
	b, err := os.ReadFile(trace)
	if err != nil || !bytes.Contains(b, []byte(`"ev":"RMech"`)) {
		return nil
	}
	viols, _, err := c.Validate("ReaderMechTrace", "TV_ReaderMech.cfg", trace, false)
	if err != nil {
		return err
	}
	counts := map[string]int{}
	for _, v := range viols {
		for _, cl := range v.Clauses {
			counts[cl]++
		}
	}
	c.ev.Extra["mechanism_events_validated"] = bytes.Count(b, []byte(`"ev":"RMech"`))
	c.ev.Extra["model_drift"] = counts
	for cl, n := range counts {
		fmt.Printf("MODEL-DRIFT: %s x%d: the Reader no longer follows the mechanism model (ReaderMechTrace); not a verdict\n", cl, n)
	}
	if len(viols) > 0 {
		c.logf("first drifting event: %s", viols[0].Event)
	}
	return nil
}

// clauses the standard library itself is known not to meet (DESIGN R3); they
// only ever excuse the standard library's own traces.
var stdTolerated = map[string]bool{}

// ---------------------------------------------------------------------------
// stream corpus

type namedStream struct {
	name string
	kind string
	s    RStream
	dict *DataSpec
}

func encStream(impl, kind string, level int, d DataSpec, flush []int) RStream {
	return RStream{Enc: []EncSpec{{Impl: impl, Kind: kind, Level: level, Window: 32768, Data: d, Flush: flush}}}
}

// corpus returns n seeded valid streams of a kind produced by various encoders.
func corpus(rng *rand.Rand, kind string, n int, maxLen int) []namedStream {
	return corpusOf(rng, kind, n, maxLen, false)
}

// corpusOf: stdOnly restricts the encoders to the standard library's, whose
// output does not depend on the acceleration level of the worker process.
func corpusOf(rng *rand.Rand, kind string, n int, maxLen int, stdOnly bool) []namedStream {
	var out []namedStream
	encs := []struct {
		impl  string
		level int
	}{{"std", -2}, {"std", 0}, {"std", 1}, {"std", 6}, {"std", 9}, {"fastgo", -2}, {"fastgo", 1}, {"fastgo", 2}}
	for i := 0; i < n; i++ {
		e := encs[(i+rng.Intn(2))%len(encs)]
		if stdOnly {
			e = encs[(i+rng.Intn(2))%5]
		}
		ln := pick(rng, []int{0, 1, 5, 300, 4000, 40000, 70000, maxLen})
		if ln > maxLen {
			ln = maxLen
		}
		d := randData(rng, ln)
		var fl []int
		for k := rng.Intn(4); k > 0 && ln > 0; k-- {
			fl = append(fl, rng.Intn(ln+1))
		}
		sortInts(fl)
		out = append(out, namedStream{name: fmt.Sprintf("%s-%s%d-%s%d", kind, e.impl, e.level, d.Class, ln), kind: kind, s: encStream(e.impl, kind, e.level, d, fl)})
	}
	return out
}

// boundaryStreams: blocks that end at and around the points where the
// inflater's internal output window fills and slides (64 KiB, then every
// 32 KiB), with codes short enough that several symbols share one decoding
// table entry: the carry-over of literals, copies and the end-of-block symbol
// across a full window.  stdOnly: encoders whose output does not depend on
// the acceleration level of the worker.
func boundaryStreams(rng *rand.Rand, perPoint int, stdOnly bool) []namedStream {
	var out []namedStream
	encs := []struct {
		impl  string
		level int
	}{{"std", -2}, {"std", -2}, {"std", 6}, {"std", 0}, {"std", 1}, {"fastgo", -2}, {"fastgo", 1}, {"fastgo", 2}}
	if stdOnly {
		encs = encs[:5]
	}
	classes := []string{"alpha4", "alpha4", "alpha3", "text", "zeros", "runs", "dom50"}
	for _, base := range []int{65536, 98304, 131072} {
		for d := -3; d <= 3; d++ {
			for k := 0; k <= perPoint; k++ {
				e := encs[rng.Intn(len(encs))]
				cl := classes[rng.Intn(len(classes))]
				if k == 0 {
					// always: literal-only blocks over a four-letter alphabet (two-bit codes)
					e, cl = encs[0], "alpha4"
				}
				tail := pick(rng, []int{0, 1, 2, 300, 40000})
				ds := DataSpec{Class: cl, Seed: rng.Int63n(1 << 30), Len: base + d + tail}
				out = append(out, namedStream{name: fmt.Sprintf("boundary-%s%d-%s-%d%+d+%d", e.impl, e.level, cl, base, d, tail), kind: "flate",
					s: encStream(e.impl, "flate", e.level, ds, []int{base + d})})
			}
			// the same with a synthesised literal-only block of exactly base+d bytes
			sh := []string{"flat", "skew", "random"}[rng.Intn(3)]
			desc := synth.Desc{Seed: rng.Int63n(1 << 40), Blocks: []synth.BlockDesc{
				{Type: "dyn", LShape: sh, DShape: "none", Toks: "lits", N: base + d},
				{Type: []string{"fixed", "dyn", "stored"}[rng.Intn(3)], LShape: "flat", DShape: "flat", Toks: "lits", N: 1 + rng.Intn(50)}}}
			if _, _, err := desc.Build(); err == nil {
				out = append(out, namedStream{name: fmt.Sprintf("boundary-synth-%s-%d%+d", sh, base, d), kind: "flate", s: RStream{Synth: &SynthSpec{desc}}})
			}
		}
	}
	return out
}

func sortInts(a []int) {
	for i := 1; i < len(a); i++ {
		for j := i; j > 0 && a[j] < a[j-1]; j-- {
			a[j], a[j-1] = a[j-1], a[j]
		}
	}
}

// (-1: the rest of the stream is drained with io.Copy, which uses the Reader's WriteTo if it has one)
var readSchedules = [][]int{{1}, {2}, {7}, {258}, {4096}, {70000}, {1, 2, 3, 5, 8, 13, 21, 400, 1}, {65536}, {3, 70000}, {1, -1}, {-1}, {300, 5, -1}}
var chunkSchedules = [][]int{{1}, {2}, {3}, {7}, {8}, {9}, {23}, {24}, {25}, {327}, {328}, {329}, {4095}, {4096}, {4097}, {0}, {1, 100, 7, 5000, 2}, {4096, 1}}
var bufioSizes = []int{16, 17, 64, 4096, 65536, 1 << 20}

func plainSrc(chunks []int) RSource {
	return RSource{Kind: "plain", Chunks: chunks, FailAt: -1, Released: -1}
}

// ---------------------------------------------------------------------------
// C04: independence of delivery and read schedules

func init() { checks["C04"] = checkC04 }

func checkC04(c *Ctx) (int, error) {
	c.ev.Level = "model_checking"
	c.ev.Assumptions = []string{"schedules: the full product of source chunkings x bufio sizes x Read sizes listed in the rule on every stream of the run; streams (valid and truncated) are seeded samples",
		"the outcome of the first schedule of a stream is the reference for the others; C02/C03 tie it to the truth"}
	if err := c.readerModels(); err != nil {
		return 0, err
	}
	rng := rand.New(rand.NewSource(c.Seed))
	nStreams := 6
	if c.Tier == "thorough" {
		nStreams = 80
	}
	streams := corpus(rng, "flate", nStreams, 120000)
	bnd := boundaryStreams(rng, 1, false)
	rng.Shuffle(len(bnd), func(i, j int) { bnd[i], bnd[j] = bnd[j], bnd[i] })
	nb := 6
	if c.Tier == "thorough" {
		nb = len(bnd)
	}
	streams = append(streams, bnd[:minInt(nb, len(bnd))]...)
	// dynamic headers of the greatest length the format allows (286 bytes: they do not fit any
	// smaller staging area when they arrive in pieces), first and later block
	for i := 0; i < nb/2; i++ {
		mh := synth.BlockDesc{Type: "dyn", LShape: []string{"flat", "random", "freq", "skew"}[i%4], DShape: []string{"flat", "random", "freq"}[i%3],
			Toks: []string{"mixed", "lits", "near"}[i%3], N: 20 + rng.Intn(400), MaxH: true, WorstCL: true, Alt258: i%2 == 0}
		d := synth.Desc{Seed: rng.Int63n(1 << 40), Blocks: []synth.BlockDesc{mh, {Type: "stored", N: 5}}}
		if i%2 == 1 {
			d.Blocks = []synth.BlockDesc{{Type: "fixed", Toks: "lits", N: 1 + rng.Intn(300)}, mh}
		}
		if _, _, err := d.Build(); err != nil {
			return 0, err
		}
		streams = append(streams, namedStream{name: fmt.Sprintf("maxheader%d", i), kind: "flate", s: RStream{Synth: &SynthSpec{d}}})
	}
	// truncations of some
	base := len(streams)
	for i := 0; i < base; i++ {
		b, err := streams[i].s.Build()
		if err != nil {
			return 0, err
		}
		for k := 0; k < 2 && len(b) > 2; k++ {
			s := streams[i]
			s.s.Mut = []Mutation{{Op: "trunc", Pos: 1 + rng.Intn(len(b)-1)}}
			s.name += "-trunc"
			streams = append(streams, s)
		}
	}
	var cases []*RCase
	id := 0
	for si, st := range streams {
		for _, arch := range c.Levels {
			group := fmt.Sprintf("C04-s%d-a%d", si, arch)
			add := func(src RSource, reads []int) {
				cs := &RCase{ID: fmt.Sprintf("C04-%d", id), Kind: "flate", Arch: arch, Group: group, GClause: "C04.same_outcome", Tag: st.name,
					Segs: []RSeg{{Stream: st.s, Src: src, Reads: reads, Multi: true}}}
				id++
				cases = append(cases, cs)
				c.ev.nontrivial(fmt.Sprintf("%s|%v|%v|%d|%v", st.name, src.Chunks, reads, src.BufSize, src.EOFData))
			}
			// the reference schedule: everything at once
			add(plainSrc([]int{0}), []int{1 << 20})
			for ci, ch := range chunkSchedules {
				for ri, rd := range readSchedules {

					add(RSource{Kind: "plain", Chunks: ch, FailAt: -1, Released: -1, EOFData: (ci+ri)%2 == 0}, rd)
				}
			}
			for bi, bs := range bufioSizes {
				for ri, rd := range readSchedules {

					add(RSource{Kind: "bufio", BufSize: bs, Chunks: chunkSchedules[(bi*3+ri)%len(chunkSchedules)], FailAt: -1, Released: -1, EOFData: ri%2 == 1}, rd)
				}
			}
			// sources that are (statically) more than an io.Reader: io.Seeker, io.WriterTo, Len ...
			for ki, kd := range []string{"seeker", "rich", "byteReader"} {
				for ri, rd := range readSchedules {
					add(RSource{Kind: kd, Chunks: chunkSchedules[(ki*5+ri)%len(chunkSchedules)], FailAt: -1, Released: -1, EOFData: ri%2 == 0}, rd)
				}
			}
		}
	}
	// truncation sweeps of streams whose FINAL block is a large Huffman block (only fastgo's own
	// writers produce them): the delivery must not change how much is decoded before the cut
	nSweep := 3
	if c.Tier == "thorough" {
		nSweep = 12
	}
	for wi := 0; wi < nSweep; wi++ {
		lvl := []int{-2, 1, 2}[wi%3]
		ds := DataSpec{Class: []string{"alpha3", "text", "digits", "alpha4"}[wi%4], Seed: rng.Int63n(1 << 30), Len: 20000 + rng.Intn(30000)}
		base := encStream("fastgo", "flate", lvl, ds, nil)
		bb, err := base.Build()
		if err != nil {
			return 0, err
		}
		base = RStream{Hex: hex.EncodeToString(bb)} // the same bytes in every worker
		for cut := 2100 + rng.Intn(300); cut < len(bb); cut += 397 + rng.Intn(200) {
			st := base
			st.Mut = []Mutation{{Op: "trunc", Pos: cut}}
			for _, arch := range c.Levels {
				group := fmt.Sprintf("C04-sweep%d-%d-a%d", wi, cut, arch)
				for si, ch := range [][]int{{0}, {1}, {7}, {4096, 1}} {
					cs := &RCase{ID: fmt.Sprintf("C04-%d", id), Kind: "flate", Arch: arch, Group: group, GClause: "C04.same_outcome", Tag: fmt.Sprintf("fastgo%d-%s-cut%d", lvl, ds.Class, cut),
						Segs: []RSeg{{Stream: st, Src: RSource{Kind: []string{"plain", "plain", "bufio", "bufio"}[si], BufSize: 64, Chunks: ch, FailAt: -1, Released: -1}, Reads: [][]int{{1 << 20}, {4096}, {1}, {70000}}[si], Multi: true}}}
					id++
					cases = append(cases, cs)
				}
			}
		}
	}
	// long, well compressible streams: the output window fills and slides dozens of times while the
	// input arrives in tiny pieces (roll-back of a half-read token at a full window)
	nLong := 3
	if c.Tier == "thorough" {
		nLong = 16
	}
	for li := 0; li < nLong; li++ {
		cl := []string{"text", "pruns", "alpha4", "tokendense", "alpha3", "mixed"}[li%6]
		st := namedStream{name: fmt.Sprintf("long-%s", cl), kind: "flate",
			s: encStream("std", "flate", []int{6, 1, 9}[li%3], DataSpec{Class: cl, Seed: rng.Int63n(1 << 30), Len: 1200000 + rng.Intn(900000), Period: 7}, nil)}
		for _, arch := range c.Levels {
			group := fmt.Sprintf("C04-long%d-a%d", li, arch)
			for si, ch := range [][]int{{0}, {1}, {2}, {3}, {7}, {5, 1, 2}} {
				cs := &RCase{ID: fmt.Sprintf("C04-%d", id), Kind: "flate", Arch: arch, Group: group, GClause: "C04.same_outcome", Tag: st.name,
					Segs: []RSeg{{Stream: st.s, Src: RSource{Kind: "plain", Chunks: ch, FailAt: -1, Released: -1}, Reads: [][]int{{1 << 20}, {4096}, {70000}}[si%3], Multi: true}}}
				id++
				cases = append(cases, cs)
			}
		}
	}
	c.ev.Rule = fmt.Sprintf("%d streams (valid from 8 encoders incl. Flush points, and truncations) x source chunk schedules %v x Read schedules %v x bufio sizes %v x EOF-with-data, at every acceleration level; each schedule's (bytes, digest, final error) must equal the all-at-once schedule's; distinct by (stream, schedule)", len(streams), chunkSchedules, readSchedules, bufioSizes)
	c.ev.Exhaustive = true
	for _, cs := range spread(cases) {
		c.ev.sample(map[string]interface{}{"stream": cs.Tag, "src": cs.Segs[0].Src, "reads": cs.Segs[0].Reads})
	}
	return c.readerRun("c04", cases, true)
}
