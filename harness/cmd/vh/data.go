package main

import (
	"math/rand"
)

// DataSpec names a deterministic byte sequence: every case can be regenerated
// from (class, seed, length) alone.
type DataSpec struct {
	Class  string `json:"class"`
	Seed   int64  `json:"seed"`
	Len    int    `json:"len"`
	Period int    `json:"period"`
	Pre    string `json:"pre,omitempty"` // writer cases: class of the data of the first epoch (before the first Reset), if different
}

var dataClasses = []string{"text", "uniform", "nearuniform", "fib", "alpha3", "runs", "period", "tokendense", "mixed", "zeros", "sparse", "dom50", "alpha4", "pruns", "copies", "onerepeat", "digits", "deepclust", "deepdist"}

var words = []string{"the", "of", "and", "compression", "deflate", "window", "huffman", "stream", "a", "to", "in", "is", "that", "for", "block", "literal", "distance", "length", "code", "bits", "byte", "0123456789", "\n", ", ", ". ", "Intel", "fastgo", "golang"}

func genText(r *rand.Rand, n int) []byte {
	b := make([]byte, 0, n+16)
	for len(b) < n {
		b = append(b, words[r.Intn(len(words))]...)
		b = append(b, ' ')
	}
	return b[:n]
}

// Bytes materialises the data.
func (d DataSpec) Bytes() []byte {
	n := d.Len
	if n <= 0 {
		return []byte{}
	}
	r := rand.New(rand.NewSource(d.Seed*7919 + 17))
	b := make([]byte, n)
	switch d.Class {
	case "text":
		return genText(r, n)
	case "uniform":
		r.Read(b)
	case "nearuniform":
		// every byte value equally often, shuffled: the flattest histogram
		for i := range b {
			b[i] = byte(i)
		}
		r.Shuffle(n, func(i, j int) { b[i], b[j] = b[j], b[i] })
	case "fib":
		// Fibonacci-like frequencies: the worst case for a depth-limited code
		var cum []int
		f1, f2, tot := 1, 1, 0
		for i := 0; i < 40; i++ {
			tot += f1
			cum = append(cum, tot)
			f1, f2 = f2, f1+f2
			if tot > 1<<30 {
				break
			}
		}
		for i := range b {
			x := r.Intn(tot)
			s := 0
			for s < len(cum) && cum[s] <= x {
				s++
			}
			b[i] = byte(s * 5)
		}
	case "alpha3":
		for i := range b {
			b[i] = "ACGTNacg"[r.Intn(8)]
		}
	case "runs":
		for i := 0; i < n; {
			c := byte(r.Intn(4) * 60)
			l := 1 + r.Intn(700)
			for j := 0; j < l && i < n; j++ {
				b[i] = c
				i++
			}
		}
	case "period":
		p := d.Period
		if p <= 0 {
			p = 1
		}
		unit := make([]byte, p)
		r.Read(unit)
		for i := range b {
			b[i] = unit[i%p]
		}
	case "dicttail":
		// the last n bytes of the text DataSpec{Class: "text", Seed, Len: Period}: a payload that
		// repeats the END of a preset dictionary of that description
		t := genText(r, maxInt(d.Period, n))
		return append([]byte{}, t[len(t)-n:]...)
	case "lowperiod":
		// periodic like "period", but the unit is spelled with two or three byte values only
		p := d.Period
		if p <= 0 {
			p = 1
		}
		alpha := 2 + int(d.Seed%2)
		unit := make([]byte, p)
		for i := range unit {
			unit[i] = byte('a' + r.Intn(alpha))
		}
		for i := range b {
			b[i] = unit[i%p]
		}
	case "tokendense":
		// four-byte matches separated by fresh literals: very many tokens per input byte
		for i := 0; i < n; {
			if i >= 8 && r.Intn(2) == 0 {
				src := i - 4 - r.Intn(minInt(i-4, 200)+1)
				if src < 0 {
					src = 0
				}
				for j := 0; j < 4 && i < n; j++ {
					b[i] = b[src+j]
					i++
				}
			} else {
				b[i] = byte(r.Intn(256))
				i++
			}
		}
	case "dom50", "dom25":
		// one byte value just over half (a quarter) of every 64 KiB, 128 KiB ... stretch,
		// the rest spread over all other values: frequency counters near their wrap-around
		share := 2
		if d.Class == "dom25" {
			share = 4
		}
		for i := range b {
			b[i] = byte(1 + r.Intn(255))
		}
		k := n/share + 50
		for _, i := range r.Perm(n)[:minInt(k, n)] {
			b[i] = 0
		}
	case "pruns":
		// many periodic stretches (period 1..40, length 4..3000) separated by a fresh byte:
		// hundreds of long matches of every length modulo 258 per input
		for i := 0; i < n; {
			p := 1 + r.Intn(40)
			if r.Intn(3) == 0 {
				p = 4 + r.Intn(8)
			}
			l := 4 + r.Intn(3000)
			if r.Intn(2) == 0 {
				l = 258*(1+r.Intn(6)) + r.Intn(8) + p
			}
			start := i
			for j := 0; j < l && i < n; j++ {
				if j < p {
					b[i] = byte(r.Intn(256))
				} else {
					b[i] = b[start+j%p]
				}
				i++
			}
			if i < n {
				b[i] = byte(r.Intn(256))
				i++
			}
		}
	case "copies":
		// literal runs and copies of every length 3..300 from every distance 1..32768 (log-uniform),
		// so that every length and distance code with all its extra-bit values occurs
		for i := 0; i < n; {
			if i < 4 || r.Intn(4) == 0 {
				for k := 1 + r.Intn(12); k > 0 && i < n; k-- {
					b[i] = byte(r.Intn(256))
					i++
				}
				continue
			}
			maxd := minInt(i, 32768)
			bits := 1 + r.Intn(16)
			dist := 1 + r.Intn(1<<uint(bits))
			if r.Intn(8) == 0 {
				dist = maxd - r.Intn(3)
			}
			if dist > maxd {
				dist = maxd
			}
			if dist < 1 {
				dist = 1
			}
			l := 3 + r.Intn(20)
			switch r.Intn(6) {
			case 0:
				l = 255 + r.Intn(8)
			case 1:
				l = 3 + r.Intn(298)
			}
			for k := 0; k < l && i < n; k++ {
				b[i] = b[i-dist]
				i++
			}
		}
	case "onerepeat":
		// random bytes with a single repeated substring of 4..12 bytes that ends within the last
		// 20 bytes: a block with exactly one match (one distance code), found at the very end
		r.Read(b)
		if n >= 16 {
			l := 4 + r.Intn(9)
			end := n - r.Intn(minInt(20, n-l-4)+1)
			if end-l > 4 {
				dist := 1 + r.Intn(minInt(end-l, 32768))
				if r.Intn(2) == 0 {
					dist = 1 + r.Intn(minInt(end-l, 300))
				}
				for k := 0; k < l; k++ {
					b[end-l+k] = b[end-l+k-dist]
				}
			}
		}
	case "deepclust":
		// Fibonacci frequencies per 64 KiB stretch (a Huffman tree as deep as the format allows) with the
		// rarest byte values - the ones with 13- to 15-bit codes - standing next to each other in clusters
		// of three to six, one of them at the very start and one at the very end of the stretch: the
		// longest codes in a row, at every alignment, and directly before the end of a block
		stretch := 65536
		if d.Period >= 256 {
			stretch = d.Period // (the stretch length can be set, so that a Flush can follow a cluster directly)
		}
		for off := 0; off < n; off += stretch {
			seg := b[off:minInt(off+stretch, n)]
			// (which profiles drive fastgo's length limiter to 15 bits was measured: a plain 1,1,2,3,5..
			// profile stops at 12 bits, the ones below give eight to twelve 15-bit codes)
			var cnt []int
			f1, f2, tot := 1, 2, 0
			switch r.Intn(6) {
			case 1:
				f2 = 3
			case 2:
				cnt, tot, f1, f2 = []int{1, 1, 1, 1, 1, 1, 1}, 7, 8, 13
			case 3:
				cnt, tot, f1, f2 = []int{1, 1, 1}, 3, 4, 7
			case 4:
				f1, f2 = 2, 3
			case 5:
				f1, f2 = 1, 1 // (the shallow one, kept for contrast)
			}
			for tot+f1 <= len(seg) && len(cnt) < 250 {
				cnt = append(cnt, f1)
				tot += f1
				f1, f2 = f2, f1+f2
			}
			perm := r.Perm(256) // which byte value plays which rank
			var rare, common []byte
			for rank, c := range cnt {
				for k := 0; k < c; k++ {
					if c <= 8 && len(rare) < 24 {
						rare = append(rare, byte(perm[rank]))
					} else {
						common = append(common, byte(perm[rank]))
					}
				}
			}
			top := byte(perm[maxInt(len(cnt)-1, 0)])
			for len(rare)+len(common) < len(seg) {
				common = append(common, top)
			}
			r.Shuffle(len(common), func(i, j int) { common[i], common[j] = common[j], common[i] })
			if r.Intn(4) == 0 {
				r.Shuffle(len(rare), func(i, j int) { rare[i], rare[j] = rare[j], rare[i] })
			}
			// cut the rare occurrences into clusters
			var clusters [][]byte
			for len(rare) > 0 {
				k := minInt(3+r.Intn(4), len(rare))
				clusters = append(clusters, rare[:k])
				rare = rare[k:]
			}
			// cluster 0 goes to the end, cluster 1 to the start, the others to random places
			out := seg[:0]
			var mid [][]byte
			if len(clusters) > 2 {
				mid = clusters[2:]
			}
			cuts := make([]int, len(mid))
			for i := range cuts {
				cuts[i] = r.Intn(len(common) + 1)
			}
			sortInts(cuts)
			if len(clusters) > 1 {
				out = append(out, clusters[1]...)
			}
			prev := 0
			for i, cpos := range cuts {
				out = append(out, common[prev:cpos]...)
				out = append(out, mid[i]...)
				prev = cpos
			}
			out = append(out, common[prev:]...)
			if len(clusters) > 0 {
				for k := len(clusters[0]) - 1; k >= 0; k-- { // the rarest last
					out = append(out, clusters[0][k])
				}
			}
		}
	case "uniform+repeat":
		// Period random bytes, then the bytes from 1000 back repeated to the end
		r.Read(b)
		for i := maxInt(d.Period, 1000); i < n; i++ {
			b[i] = b[i-1000]
		}
	case "deepdist":
		// the counterpart of deepclust for the DISTANCE alphabet: bytes that occur once, except for
		// planted five- to eight-byte copies whose distances fall into up to 17 distance classes
		// (from distance 9 up) with exact Fibonacci multiplicities 1,1,2,3,5.. - the least number
		// of copies (4180) whose Huffman tree is 16 deep - packed into the first ~27000 tokens,
		// so that they all fall into one block; the rest of the data is fresh bytes
		{
			bases := []int{9, 13, 17, 25, 33, 49, 65, 97, 129, 193, 257, 385, 513, 769, 1025, 1537, 2049, 3073, 4097, 6145, 8193, 12289, 16385, 24577}
			var mult []int
			f1, f2, cost := 1, 1, 0
			for len(mult) < 17 && cost+f1*13 <= n*9/10 {
				cost += f1 * 13
				mult = append(mult, f1)
				f1, f2 = f2, f1+f2
			}
			nc := len(mult)
			var plants []int // distance class per plant; the rarest class is the farthest
			for j, m := range mult {
				for k := 0; k < m; k++ {
					plants = append(plants, nc-1-j)
				}
			}
			r.Shuffle(len(plants), func(i, j int) { plants[i], plants[j] = plants[j], plants[i] })
			out := b[:0]
			ctr := uint32(r.Int31())
			grams := map[uint32]int32{} // how often each four-byte string has occurred
			push := func(c byte) {
				out = append(out, c)
				if k := len(out); k >= 4 {
					grams[uint32(out[k-4])|uint32(out[k-3])<<8|uint32(out[k-2])<<16|uint32(out[k-1])<<24]++
				}
			}
			fresh := func(k int) {
				for ; k > 0 && len(out) < n; k-- {
					ctr = ctr*1664525 + 1013904223
					push(byte(ctr>>24) ^ byte(ctr>>13))
				}
			}
			var later []int
			for pi := 0; (pi < len(plants) || len(later) > 0) && len(out)+16 < n; pi++ {
				var cls int
				if pi < len(plants) {
					cls = plants[pi]
				} else {
					cls, later = later[0], later[1:]
				}
				fresh(4 + r.Intn(4))
				width := 32769 - bases[cls]
				if cls+1 < len(bases) {
					width = bases[cls+1] - bases[cls]
				}
				placed := false
				// a source whose first four bytes have occurred exactly once: the match finder can
				// only find it there, at exactly this distance
				for try, d0 := 0, r.Intn(width); try < width && try < 64 && !placed; try++ {
					d := bases[cls] + (d0+try)%width
					p := len(out) - d
					if p < 0 {
						continue
					}
					if grams[uint32(out[p])|uint32(out[p+1])<<8|uint32(out[p+2])<<16|uint32(out[p+3])<<24] != 1 {
						continue
					}
					for k, l := 0, 5+r.Intn(4); k < l && len(out) < n; k++ {
						push(out[len(out)-d])
					}
					placed = true
				}
				if !placed && len(later) < 8000 && pi < 3*len(plants) {
					later = append(later, cls) // (not enough history yet: again further on)
				}
			}
			fresh(n - len(out))
		}
	case "digits":
		// ten symbols with codes of three to four bits: three symbols per decoding-table entry
		for i := range b {
			b[i] = byte('0' + r.Intn(10))
		}
	case "alpha4":
		// four letters with very short codes: several symbols per decoding-table entry
		for i := range b {
			b[i] = "abcd"[r.Intn(4)]
		}
	case "zeros":
		// all zero
	case "sparse":
		for i := range b {
			if r.Intn(50) == 0 {
				b[i] = byte(r.Intn(256))
			}
		}
	case "mixed":
		out := b[:0]
		for len(out) < n {
			sub := DataSpec{Class: dataClasses[r.Intn(8)], Seed: r.Int63n(1 << 30), Len: 1 + r.Intn(n/3+100), Period: 1 + r.Intn(300)}
			out = append(out, sub.Bytes()...)
		}
		return out[:n]
	default:
		r.Read(b)
	}
	return b
}

func minInt(a, b int) int {
	if a < b {
		return a
	}
	return b
}
func maxInt(a, b int) int {
	if a > b {
		return a
	}
	return b
}
