package main

import (
	"bytes"
	stdflate "compress/flate"
	stdgzip "compress/gzip"
	"encoding/binary"
	"fmt"
	"hash/crc32"
	"io"
)

// HugeSpec describes a gzip file whose first member is UnitMiB*Reps + TailMiB MiB of zero
// bytes - around or beyond 4 GiB, where the member's length no longer fits the 32-bit ISIZE
// field of the trailer (RFC 1952: "the size of the original input data modulo 2^32") -
// optionally followed by a second, small member.  The compressed form is a few MiB: one
// deflated piece of UnitMiB MiB that ends in a sync marker, repeated.
//
// All output lengths of such a case are whole MiB and are logged in MiB (TLC's integers
// are 32 bits wide); an output that is not a whole number of MiB is logged as wrong bytes.
type HugeSpec struct {
	UnitMiB int  `json:"unitMiB"`
	Reps    int  `json:"reps"`
	TailMiB int  `json:"tailMiB"`
	Second  bool `json:"second"` // a second member of 1 MiB of text follows
}

const miB = 1 << 20

func (h *HugeSpec) totalMiB() int {
	t := h.UnitMiB*h.Reps + h.TailMiB
	if h.Second {
		t++
	}
	return t
}

func zeroPiece(mib int) []byte {
	var piece bytes.Buffer
	w, _ := stdflate.NewWriter(&piece, 6)
	z := make([]byte, miB)
	for i := 0; i < mib; i++ {
		w.Write(z)
	}
	w.Flush()
	return piece.Bytes()
}

func secondPayload() []byte { return DataSpec{Class: "text", Seed: 31, Len: miB}.Bytes() }

// build returns the compressed file.
func (h *HugeSpec) build() []byte {
	var out bytes.Buffer
	out.Write([]byte{0x1f, 0x8b, 8, 0, 0, 0, 0, 0, 0, 255})
	p := zeroPiece(h.UnitMiB)
	for i := 0; i < h.Reps; i++ {
		out.Write(p)
	}
	if h.TailMiB > 0 {
		out.Write(zeroPiece(h.TailMiB))
	}
	out.Write([]byte{1, 0, 0, 0xff, 0xff}) // final empty stored block
	z := make([]byte, miB)
	crc := uint32(0)
	n := h.UnitMiB*h.Reps + h.TailMiB
	for i := 0; i < n; i++ {
		crc = crc32.Update(crc, crc32.IEEETable, z)
	}
	var tr [8]byte
	binary.LittleEndian.PutUint32(tr[:4], crc)
	binary.LittleEndian.PutUint32(tr[4:], uint32(uint64(n)*miB)) // modulo 2^32
	out.Write(tr[:])
	if h.Second {
		w := stdgzip.NewWriter(&out)
		w.Write(secondPayload())
		w.Close()
	}
	return out.Bytes()
}

// execHugeCase reads the file once with 1 MiB Reads and logs Begin, one merged Read, the
// final Read and End in MiB.
func execHugeCase(c *RCase, arch int, emit func(interface{})) {
	h := c.Huge
	data := h.build()
	total := h.totalMiB()
	firstMiB := total
	var second []byte
	if h.Second {
		firstMiB--
		second = secondPayload()
	}
	wantCRC := uint32(0)
	z := make([]byte, miB)
	for i := 0; i < firstMiB; i++ {
		wantCRC = crc32.Update(wantCRC, crc32.IEEETable, z)
	}
	wantCRC = crc32.Update(wantCRC, crc32.IEEETable, second)
	b := REvent{Ev: "Begin", Case: c.ID, Kind: "gzip", Impl: c.Impl, Arch: arch, SrcKind: "bytesReader", Exact: true,
		SLen: len(data), Released: len(data), DecAt: -1, MayGate: true,
		Ref: ROrc{"eof", total, len(data), false}, Std: ROrc{"eof", total, 0, false}, OracleSame: true,
		GClause: "NONE.group", Ctor: "new", WantLen: total, WantDigest: fmt.Sprintf("%08x", wantCRC)}
	emit(b)
	src := bytes.NewReader(data)
	u, err := newReader(c.Impl, "gzip", src, nil)
	if err != nil {
		cls, det := errClassR(err, nil)
		emit(REvent{Ev: "Read", Case: c.ID, Err: cls, Errd: det, Ok: true, Cnt: 1})
		emit(REvent{Ev: "End", Case: c.ID, Rest: src.Len(), WantRest: 0, HdrOK: true})
		return
	}
	buf := make([]byte, miB)
	var got uint64
	gotCRC := uint32(0)
	ok := true
	cnt := 0
	var rerr error
	pan := ""
	for rerr == nil && pan == "" {
		n := 0
		func() {
			defer func() {
				if x := recover(); x != nil {
					pan = panicString(x)
				}
			}()
			n, rerr = u.r.Read(buf)
		}()
		if n < 0 || n > len(buf) {
			ok = false
			break
		}
		// every byte is the byte expected at its position
		p := buf[:n]
		for len(p) > 0 {
			var want []byte
			if lim := uint64(firstMiB) * miB; got < lim {
				k := uint64(len(p))
				if got+k > lim {
					k = lim - got
				}
				want = z[:k]
			} else if off := got - uint64(firstMiB)*miB; off < uint64(len(second)) {
				want = second[off:]
				if len(want) > len(p) {
					want = want[:len(p)]
				}
			} else {
				ok = false
				break
			}
			if !bytes.Equal(p[:len(want)], want) {
				ok = false
			}
			gotCRC = crc32.Update(gotCRC, crc32.IEEETable, p[:len(want)])
			got += uint64(len(want))
			p = p[len(want):]
		}
		cnt++
		if n == 0 && rerr == nil && cnt > 100000000 {
			break
		}
	}
	if got%miB != 0 {
		ok = false // not a whole number of MiB: certainly not the expected output
	}
	emit(REvent{Ev: "Read", Case: c.ID, K: 1, N: int(got / miB), Err: "nil", Ok: ok, Cnt: maxInt(cnt, 2)})
	cls, det := errClassR(rerr, nil)
	emit(REvent{Ev: "Read", Case: c.ID, K: 1, N: 0, Err: cls, Errd: det, Ok: true, Cnt: 1, Panic: pan})
	if pan == "" {
		// sticky
		n2, e2 := u.r.Read(buf)
		c2, d2 := errClassR(e2, nil)
		emit(REvent{Ev: "Read", Case: c.ID, K: 1, N: n2, Err: c2, Errd: d2, Ok: n2 == 0, Cnt: 1})
	}
	emit(REvent{Ev: "End", Case: c.ID, Rest: src.Len(), WantRest: 0, Digest: fmt.Sprintf("%08x", gotCRC), HdrOK: true})
}

var _ = io.EOF
