package main

import (
	"bufio"
	"bytes"
	"encoding/json"
	"fmt"
	"math/rand"
	"os"
	"strings"
	"time"
)

// ---------------------------------------------------------------------------
// Writer family: generation helpers

type hop struct {
	Op string
	N  int
}

// parseHist decodes a behaviour printed by WriterModel: [["W",2],["F",0],...].
func parseHist(s string) ([]hop, error) {
	var raw [][]interface{}
	if err := json.Unmarshal([]byte(s), &raw); err != nil {
		return nil, err
	}
	var out []hop
	for _, r := range raw {
		if len(r) != 2 {
			return nil, fmt.Errorf("bad history element %v", r)
		}
		op, _ := r[0].(string)
		n, _ := r[1].(float64)
		out = append(out, hop{op, int(n)})
	}
	return out, nil
}

func histString(ops []Op) string {
	var sb strings.Builder
	for i, o := range ops {
		if i > 0 {
			sb.WriteByte(' ')
		}
		if o.Op == "W" {
			fmt.Fprintf(&sb, "W%d", o.N)
		} else {
			sb.WriteString(o.Op)
		}
	}
	return sb.String()
}

func genCfg(kinds string, sizes []int, maxLen, maxResets int, faults bool, ops []string, extra string) string {
	var ss []string
	for _, s := range sizes {
		ss = append(ss, fmt.Sprint(s))
	}
	var os_ []string
	for _, o := range ops {
		os_ = append(os_, `"`+o+`"`)
	}
	return fmt.Sprintf(`SPECIFICATION MSpec
CONSTANTS
  StdQuirks = FALSE
  Kinds = {%s}
  Sizes = {%s}
  MaxLen = %d
  MaxResets = %d
  Faults = %v
  OpSet = {%s}
VIEW GenView
INVARIANTS PrintHist
CHECK_DEADLOCK FALSE
%s`, kinds, strings.Join(ss, ", "), maxLen, maxResets, strings.ToUpper(fmt.Sprint(faults)), strings.Join(os_, ", "), extra)
}

// capOf is the size of the accumulation buffer of fastgo's own compressors
// for a setting (derived from the public window size; used only to place
// Write sizes around interesting thresholds, never for a verdict).
func capOf(set WSetting) int {
	if set.Level == -2 {
		return 65536
	}
	if set.Window == 4096 {
		return 2*4096 + 258
	}
	return 2*32768 + 258
}

var allWSettings = []WSetting{
	{Kind: "flate", Level: -2, Window: 32768},
	{Kind: "flate", Level: 1, Window: 32768},
	{Kind: "flate", Level: 2, Window: 32768},
	{Kind: "flate", Level: -1, Window: 32768},
	{Kind: "flate", Level: 0, Window: 32768},
	{Kind: "flate", Level: 6, Window: 32768},
	{Kind: "flate", Level: 9, Window: 32768},
	{Kind: "flate", Level: 3, Window: 32768},
	{Kind: "flate", Level: 5, Window: 32768, Dict: &DataSpec{Class: "text", Seed: 5, Len: 700}},
	{Kind: "flate", Level: 1, Window: 32768, Dict: &DataSpec{Class: "text", Seed: 6, Len: 40000}},
	{Kind: "flate", Level: 1, Window: 4096},
	{Kind: "flate", Level: 2, Window: 4096},
	{Kind: "flate", Level: -1, Window: 4096},
	{Kind: "flate", Level: -2, Window: 4096},
	{Kind: "flate", Level: 7, Window: 4096},
	{Kind: "gzip", Level: 1, Window: 32768},
	{Kind: "gzip", Level: -2, Window: 32768},
	{Kind: "gzip", Level: 6, Window: 32768},
	{Kind: "gzip", Level: -1, Window: 32768, Hdr: &GzHeader{Name: "näme.txt", Comment: "c", Extra: []byte{1, 2, 3}, ModTime: 1700000000, OS: 3}},
	{Kind: "zlib", Level: 2, Window: 32768},
	{Kind: "zlib", Level: -2, Window: 32768},
	{Kind: "zlib", Level: 0, Window: 32768},
	{Kind: "zlib", Level: 1, Window: 32768, Dict: &DataSpec{Class: "text", Seed: 7, Len: 300}},
	// dictionaries longer than the window: only their last 32 KiB can be referred to
	{Kind: "flate", Level: -1, Window: 32768, Dict: &DataSpec{Class: "text", Seed: 8, Len: 70000}},
	{Kind: "zlib", Level: 6, Window: 32768, Dict: &DataSpec{Class: "text", Seed: 9, Len: 40000}},
	{Kind: "zlib", Level: 2, Window: 32768, Dict: &DataSpec{Class: "text", Seed: 10, Len: 32769}},
}

func settingTag(s WSetting) string {
	t := fmt.Sprintf("%s/L%d", s.Kind, s.Level)
	if s.Window == 4096 {
		t += "/4K"
	}
	if s.Dict != nil {
		t += fmt.Sprintf("/dict%d", s.Dict.Len)
	}
	if s.Hdr != nil {
		t += "/hdr"
	}
	return t
}

// hasStd reports whether the standard library has a counterpart of the setting.
func hasStd(s WSetting) bool { return s.Window != 4096 }

// ---------------------------------------------------------------------------

// writerModels model-checks the design-level writer specifications: the
// ideal Writer (contract closed under its environment) and the
// implementation-shaped WriterMech for both compressor variants.
func (c *Ctx) writerModels() error {
	if err := c.ModelCheck("WriterModel", "MC_WriterModel.cfg", 15*time.Minute); err != nil {
		return err
	}
	for _, cfg := range []string{"MC_WriterMech_dyn.cfg", "MC_WriterMech_huff.cfg"} {
		if err := c.ModelCheck("WriterMech", cfg, 15*time.Minute); err != nil {
			return err
		}
	}
	// the mechanism with the position of the last sync marker as extra state (the design question behind
	// "a Flush with nothing new writes only the marker": positions are relative to a buffer that slides)
	if err := c.ModelCheck("WriterMechSync", "MC_WriterMechSync.cfg", 15*time.Minute); err != nil {
		return err
	}
	// the mechanism model refines the contract: every call it completes is judged by the contract's clauses
	for _, cfg := range []string{"MC_WriterRefine_dyn.cfg", "MC_WriterRefine_huff.cfg"} {
		if err := c.ModelCheck("WriterRefine", cfg, 15*time.Minute); err != nil {
			return err
		}
	}
	// the container layers (gzip.go, zlib/writer.go) over an abstract compressor, judged the same way
	for _, cfg := range []string{"MC_GzipWriterMech.cfg", "MC_ZlibWriterMech.cfg"} {
		if err := c.ModelCheck("GzipWriterMech", cfg, 15*time.Minute); err != nil {
			return err
		}
	}
	return nil
}

// traceStats scans a writer trace for coverage facts recorded in the evidence.
func (c *Ctx) traceStats(trace string) {
	f, err := os.Open(trace)
	if err != nil {
		return
	}
	defer f.Close()
	sc := bufio.NewScanner(f)
	sc.Buffer(make([]byte, 1<<20), 1<<28)
	maxd := map[int]int{}
	window := 0
	evs := map[string]int{}
	for sc.Scan() {
		var e struct {
			Ev     string `json:"ev"`
			Window int    `json:"window"`
			Ref    struct {
				Maxd int `json:"maxd"`
			} `json:"ref"`
		}
		if json.Unmarshal(sc.Bytes(), &e) != nil {
			continue
		}
		evs[e.Ev]++
		if e.Ev == "Begin" {
			window = e.Window
		} else if e.Ref.Maxd > maxd[window] {
			maxd[window] = e.Ref.Maxd
		}
	}
	md := map[string]int{}
	for w, d := range maxd {
		md[fmt.Sprint(w)] = d
	}
	c.ev.Extra["max_distance_observed_by_window"] = md
	c.ev.Extra["events_by_kind"] = evs
}

// mechDrift validates the compressor's hook events against DynMechTrace.  A
// mismatch is MODEL-DRIFT: the implementation no longer works the way the
// mechanism model says.  It is reported and recorded, never a verdict (R2).
func (c *Ctx) mechDrift(trace string) error {
	b, err := os.ReadFile(trace)
	if err != nil || !bytes.Contains(b, []byte(`"ev":"Mech"`)) {
		return nil
	}
	viols, _, err := c.Validate("DynMechTrace", "TV_DynMech.cfg", trace, false)
	if err != nil {
		return err
	}
	counts := map[string]int{}
	for _, v := range viols {
		for _, cl := range v.Clauses {
			counts[cl]++
		}
	}
	c.ev.Extra["mechanism_events_validated"] = bytes.Count(b, []byte(`"ev":"Mech"`))
	c.ev.Extra["model_drift"] = counts
	for cl, n := range counts {
		fmt.Printf("MODEL-DRIFT: %s x%d: the compressor no longer follows the mechanism model (DynMechTrace); not a verdict\n", cl, n)
	}
	if len(viols) > 0 {
		c.logf("first drifting event: %s", viols[0].Event)
	}
	return nil
}

// writerRun executes writer cases on the standard library (R3) and on fastgo,
// validates both traces against WriterContract and reports.
func (c *Ctx) writerRun(name string, cases []*WCase, withStd bool) (int, error) {
	byID := map[string]Case{}
	var fg, std []Case
	if only := os.Getenv("VERIF_ONLY"); only != "" { // debugging aid: run a subset of the cases
		var keep []*WCase
		for _, cs := range cases {
			if strings.Contains(cs.ID, only) {
				keep = append(keep, cs)
			}
		}
		cases = keep
	}
	reg, err := c.regressCases()
	if err != nil {
		return 0, err
	}
	for _, r := range reg {
		if w, ok := r.(*WCase); ok {
			cases = append(cases, w)
		}
	}
	for ci, cs := range cases {
		cs.Family = "writer"
		cs.Set.Impl = "fastgo"
		if cs.Via == "" && cs.Bulk == 0 && cs.Soak == 0 {
			// how the data reaches the Writer rotates: Write, io.Copy (a ReadFrom method would run), io.WriteString
			cs.Via = []string{"", "", "copy", "", "string", ""}[ci%6]
		}
		if cs.FailAt == 0 && ci%2 == 1 {
			// every second fault-free case resets onto the SAME destination object (the next member
			// or stream is appended to the same file) instead of a new one
			ops := append([]Op{}, cs.Ops...)
			for i := range ops {
				if ops[i].Op == "R" {
					ops[i].Op = "S"
				}
			}
			cs.Ops = ops
		}
		if c.mech && cs.Set.Kind == "flate" && cs.Set.Dict == nil && !cs.CountOnly && cs.Soak == 0 &&
			(cs.Set.Level == 1 || cs.Set.Level == 2 || cs.Set.Level == -1 || (cs.Set.Window == 4096 && cs.Set.Level > 0)) {
			cs.Mech = true
		}
		if cs.Ctor != "" {
			byID[cs.ID] = cs
			fg = append(fg, cs)
			continue
		}
		if _, dup := byID[cs.ID]; dup {
			return 0, fmt.Errorf("duplicate case id %s", cs.ID)
		}
		byID[cs.ID] = cs
		fg = append(fg, cs)
		if withStd && hasStd(cs.Set) && cs.Arch == c.Levels[len(c.Levels)-1] && cs.Bulk == 0 && cs.Soak == 0 {
			s := *cs
			s.Set.Impl = "std"
			s.ID = "std:" + cs.ID
			s.Arch = c.Host
			std = append(std, &s)
		}
	}
	if len(std) > 0 {
		t0 := time.Now()
		trace, err := c.Execute(name+"-std", std, false)
		if err != nil {
			return 0, err
		}
		viols, _, err := c.Validate("WriterTrace", "TV_Writer_std.cfg", trace, false)
		if err != nil {
			return 0, err
		}
		bad := 0
		for _, v := range viols {
			for _, cl := range v.Clauses {
				bad++
				if bad <= 5 {
					c.logf("R3: the contract rejects the standard library: clause %s case %s event %s", cl, v.Case, v.Event)
				}
			}
		}
		if bad > 0 {
			return 0, fmt.Errorf("the contract rejects %d events of the standard library's own traces: specification or harness error, no verdict", bad)
		}
		c.ev.StdTraces += len(std)
		c.logf("R3: %d standard-library traces accepted (%.1fs)", len(std), time.Since(t0).Seconds())
	}
	t0 := time.Now()
	trace, err := c.Execute(name, fg, false)
	if err != nil {
		return 0, err
	}
	t1 := time.Now()
	viols, nev, err := c.Validate("WriterTrace", "TV_Writer.cfg", trace, true)
	if err != nil {
		return 0, err
	}
	c.traceStats(trace)
	if err := c.mechDrift(trace); err != nil {
		return 0, err
	}
	c.ev.Traces += len(fg)
	c.ev.Evaluations += len(fg)
	c.logf("%s: %d cases executed (%.1fs), %d events validated (%.1fs), %d violating events", name, len(fg), t1.Sub(t0).Seconds(), nev, time.Since(t1).Seconds(), len(viols))
	return c.Report(viols, byID, "WriterTrace", "TV_Writer.cfg")
}

// spreadArch assigns acceleration levels: every level for each case when all
// is set (the case is replicated), otherwise round-robin.
func (c *Ctx) spreadArch(cases []*WCase, all bool) []*WCase {
	var out []*WCase
	for i, cs := range cases {
		if !all {
			cs.Arch = c.Levels[i%len(c.Levels)]
			cs.ID = fmt.Sprintf("%s@A%d", cs.ID, cs.Arch)
			out = append(out, cs)
			continue
		}
		for _, l := range c.Levels {
			d := *cs
			d.Arch = l
			d.ID = fmt.Sprintf("%s@A%d", cs.ID, l)
			out = append(out, &d)
		}
	}
	return out
}

// ---------------------------------------------------------------------------
// C16: any call sequence is safe

func init() { checks["C16"] = checkC16 }

func checkC16(c *Ctx) (int, error) {
	c.ev.Level = "model_checking"
	c.ev.Assumptions = []string{
		"histories are exhaustive up to the stated length over the abstract alphabet {Write(empty|small|large), Flush, Close, Reset}; payload bytes are seeded samples",
		"the expected nil/non-nil answers are those of WriterContract, which is validated against compress/flate, compress/gzip and compress/zlib executing the same histories on every run",
	}
	if err := c.writerModels(); err != nil {
		return 0, err
	}
	maxLen, perHist := 4, 3
	if c.Tier == "thorough" {
		maxLen, perHist = 6, 4
	}
	cfg := genCfg(`"flate"`, []int{0, 1, 2}, maxLen, maxLen, false, []string{"Write", "Flush", "Close", "Reset"}, "")
	behs, err := c.Behaviours("WriterModel", "GEN_C16.cfg", map[string]string{"GEN_C16.cfg": cfg}, 10*time.Minute)
	if err != nil {
		return 0, err
	}
	rng := rand.New(rand.NewSource(c.Seed))
	var cases []*WCase
	nset := len(allWSettings)
	for i, b := range behs {
		h, err := parseHist(b)
		if err != nil {
			return 0, err
		}
		for k := 0; k < perHist; k++ {
			set := allWSettings[(i*perHist+k*7+int(c.Seed))%nset]
			cs := &WCase{ID: fmt.Sprintf("C16-%d-%d", i, k), Set: set, Tag: settingTag(set)}
			total := 0
			small := 1 + rng.Intn(300)
			large := capOf(set) + rng.Intn(6000) - 1000
			for _, o := range h {
				op := Op{Op: o.Op}
				if o.Op == "W" {
					op.N = []int{0, small, large}[o.N]
					total += op.N
				}
				cs.Ops = append(cs.Ops, op)
			}
			cs.Data = DataSpec{Class: dataClasses[rng.Intn(len(dataClasses))], Seed: rng.Int63n(1 << 30), Len: total, Period: 1 + rng.Intn(300)}
			cases = append(cases, cs)
			closes := 0
			for _, o := range h {
				if o.Op == "C" {
					closes++
				}
			}
			if closes >= 1 && len(h) >= 2 {
				c.ev.nontrivial(histString(cs.Ops) + "|" + cs.Tag)
			}
		}
	}
	// gzip Writers whose header fields cannot be encoded (Extra too long, NUL or a code point above
	// U+00FF in Name/Comment): every call up to the Reset reports it, nothing panics
	nBad := 0
	for i, b := range behs {
		if i%3 != 0 {
			continue
		}
		h, err := parseHist(b)
		if err != nil {
			return 0, err
		}
		set := WSetting{Kind: "gzip", Level: []int{-2, 1, 2, 6, -1, 0}[(i/3)%6], Window: 32768, Hdr: badHeader(i / 3)}
		cs := &WCase{ID: fmt.Sprintf("C16-badhdr-%d", i), Set: set, Tag: settingTag(set) + "|unencodable-header"}
		total := 0
		for _, o := range h {
			op := Op{Op: o.Op}
			if o.Op == "W" {
				op.N = []int{0, 7, 70000}[o.N]
				total += op.N
			}
			cs.Ops = append(cs.Ops, op)
		}
		cs.Data = DataSpec{Class: "text", Seed: int64(i), Len: total}
		cases = append(cases, cs)
		nBad++
		c.ev.nontrivial(histString(cs.Ops) + "|" + cs.Tag + fmt.Sprint(i/3%5))
	}
	c.ev.Extra["unencodable_header_cases"] = nBad
	// gzip Writers that are zero values made usable by Reset (pooled or embedded Writers), not constructor results
	for i, b := range behs {
		if i%5 != 2 {
			continue
		}
		h, err := parseHist(b)
		if err != nil {
			return 0, err
		}
		set := WSetting{Kind: "gzip", Level: 0, Window: 32768}
		cs := &WCase{ID: fmt.Sprintf("C16-zerovalue-%d", i), Set: set, Tag: settingTag(set) + "|zero-value", ZeroValue: true}
		total := 0
		for _, o := range h {
			op := Op{Op: o.Op}
			if o.Op == "W" {
				op.N = []int{0, 9, 70000}[o.N]
				total += op.N
			}
			cs.Ops = append(cs.Ops, op)
		}
		cs.Data = DataSpec{Class: "text", Seed: int64(i), Len: total}
		cases = append(cases, cs)
		c.ev.nontrivial(histString(cs.Ops) + "|" + cs.Tag)
	}
	// Close at the output-piece boundaries, in bulk (see execBulk)
	cases = append(cases, bulkCases(c, rng, "C16")...)
	c.ev.Rule = fmt.Sprintf("every history of exactly %d calls over {Write(0|small|large), Flush, Close, Reset} printed by TLC from WriterModel (prefixes are validated event by event), each on %d settings of %d; non-trivial = contains a Close and at least one other call; distinct by (history, setting)", maxLen, perHist, nset)
	c.ev.Exhaustive = true
	for _, cs := range spread(cases) {
		c.ev.sample(map[string]interface{}{"history": histString(cs.Ops), "setting": cs.Tag, "data": cs.Data})
	}
	cases = c.spreadArch(cases, false)
	cases = append(cases, ctorCases(c)...)
	return c.writerRun("c16", cases, true)
}

// ctorCases: constructor level acceptance, -4..11 for every mirroring constructor.
func ctorCases(c *Ctx) []*WCase {
	var out []*WCase
	for _, ctor := range []string{"flate.NewWriter", "flate.NewWriterDict", "gzip.NewWriterLevel", "zlib.NewWriterLevel", "zlib.NewWriterLevelDict"} {
		cs := &WCase{ID: "C16-ctor-" + ctor, Tag: ctor, Arch: c.Levels[len(c.Levels)-1]}
		cs.Ctor = ctor
		out = append(out, cs)
	}
	return out
}
