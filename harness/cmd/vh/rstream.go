package main

import (
	"bytes"
	stdflate "compress/flate"
	stdgzip "compress/gzip"
	stdzlib "compress/zlib"
	"encoding/binary"
	"encoding/hex"
	"fmt"
	"hash/adler32"
	"hash/crc32"
	"io"
	"math/rand"
	"time"

	fgflate "github.com/intel/fastgo/compress/flate"
	fggzip "github.com/intel/fastgo/compress/gzip"
	fgzlib "github.com/intel/fastgo/compress/zlib"

	"verif/harness/refinflate"
)

// EncSpec: compressed bytes produced by an encoder.
type EncSpec struct {
	Impl   string    `json:"impl"` // "std" | "fastgo"
	Kind   string    `json:"kind"` // "flate" | "gzip" | "zlib"
	Level  int       `json:"level"`
	Window int       `json:"window"`
	Data   DataSpec  `json:"data"`
	Flush  []int     `json:"flush"` // data offsets at which Flush is called
	Dict   *DataSpec `json:"dict"`
	Hdr    *GzHeader `json:"hdr"`
	Reuse  bool      `json:"reuse"` // write this member with the Writer of the previous one (Reset), if the setting is the same
	FHCRC  bool      `json:"fhcrc"` // gzip: add the optional header CRC16 (no Go writer emits it; readers must check it)
}

// Mutation changes the byte string.
type Mutation struct {
	Op   string `json:"op"` // "trunc" | "flip" | "subst" | "append" | "appendzero"
	Pos  int    `json:"pos"`
	Val  int    `json:"val"`
	N    int    `json:"n"`
	Seed int64  `json:"seed"`
}

// RStream names a compressed byte string.
type RStream struct {
	Enc   []EncSpec  `json:"enc"`   // concatenated (gzip members)
	Synth *SynthSpec `json:"synth"` // synthesised DEFLATE stream
	Hex   string     `json:"hex"`
	Mut   []Mutation `json:"mut"`
	Cut   bool       `json:"cut"` // the mutations cut a valid container inside a member
}

// encodeAll concatenates the encodings; members marked Reuse share the previous member's Writer.
func encodeAll(list []EncSpec) ([]byte, error) {
	var out []byte
	var prev *wUnderTest
	var prevSet WSetting
	for _, e := range list {
		set := WSetting{Impl: e.Impl, Kind: e.Kind, Level: e.Level, Window: e.Window, Dict: e.Dict}
		if e.Reuse && prev != nil && set.Impl == prevSet.Impl && set.Kind == prevSet.Kind && set.Level == prevSet.Level && e.Dict == nil && !e.FHCRC {
			var buf bytes.Buffer
			prev.reset(&buf)
			if err := setGzHeader(prev.w, e.Hdr); err != nil {
				return nil, err
			}
			data := e.Data.Bytes()
			if _, err := prev.w.Write(data); err != nil {
				return nil, err
			}
			if err := prev.w.Close(); err != nil {
				return nil, err
			}
			out = append(out, buf.Bytes()...)
			continue
		}
		x, u, err := encodeKeep(e)
		if err != nil {
			return nil, err
		}
		out = append(out, x...)
		prev, prevSet = u, set
	}
	return out, nil
}

// setGzHeader sets the user-visible header fields of a gzip Writer (after Reset they are back to the default).
func setGzHeader(w writerAPI, h *GzHeader) error {
	if h == nil {
		return nil
	}
	switch z := w.(type) {
	case *fggzip.Writer:
		z.Name, z.Comment, z.Extra, z.OS = h.Name, h.Comment, h.Extra, h.OS
		if h.ModTime != 0 {
			z.ModTime = time.Unix(h.ModTime, 0)
		}
	case *stdgzip.Writer:
		z.Name, z.Comment, z.Extra, z.OS = h.Name, h.Comment, h.Extra, h.OS
		if h.ModTime != 0 {
			z.ModTime = time.Unix(h.ModTime, 0)
		}
	}
	return nil
}

func encode(e EncSpec) ([]byte, error) {
	b, _, err := encodeKeep(e)
	return b, err
}

func encodeKeep(e EncSpec) ([]byte, *wUnderTest, error) {
	b, u, err := encodeInner(e)
	return b, u, err
}

func encodeInner(e EncSpec) ([]byte, *wUnderTest, error) {
	var buf bytes.Buffer
	var dict []byte
	if e.Dict != nil {
		dict = e.Dict.Bytes()
	}
	set := WSetting{Impl: e.Impl, Kind: e.Kind, Level: e.Level, Window: e.Window, Dict: e.Dict, Hdr: e.Hdr}
	if set.Window == 0 {
		set.Window = 32768
	}
	u, err := newWriter(set, &buf, dict)
	if err != nil {
		return nil, nil, err
	}
	data := e.Data.Bytes()
	pos := 0
	for _, f := range e.Flush {
		if f > len(data) {
			f = len(data)
		}
		if f >= pos {
			if _, err := u.w.Write(data[pos:f]); err != nil {
				return nil, nil, err
			}
			pos = f
			if err := u.w.Flush(); err != nil {
				return nil, nil, err
			}
		}
	}
	if _, err := u.w.Write(data[pos:]); err != nil {
		return nil, nil, err
	}
	if err := u.w.Close(); err != nil {
		return nil, nil, err
	}
	out := buf.Bytes()
	if e.FHCRC && e.Kind == "gzip" {
		if n, complete, valid, _, _ := parseGzipHeader(out); complete && valid && out[3]&2 == 0 {
			hdr := append([]byte{}, out[:n]...)
			hdr[3] |= 2
			crc := crc32.ChecksumIEEE(hdr)
			hdr = append(hdr, byte(crc), byte(crc>>8))
			out = append(hdr, out[n:]...)
		}
	}
	return out, &u, nil
}

// Build materialises the stream.
func (s RStream) Build() ([]byte, error) {
	b, _, err := s.BuildWithOrigin()
	return b, err
}

// BuildWithOrigin also returns the byte string before a final truncation
// (nil if the last mutation is not a truncation): a witness that the
// truncated string can be completed.
func (s RStream) BuildWithOrigin() ([]byte, []byte, error) {
	var origin []byte
	b, err := s.build(&origin)
	return b, origin, err
}

func (s RStream) build(origin *[]byte) ([]byte, error) {
	var b []byte
	switch {
	case s.Hex != "":
		x, err := hex.DecodeString(s.Hex)
		if err != nil {
			return nil, err
		}
		b = x
	case s.Synth != nil:
		x, err := s.Synth.Build()
		if err != nil {
			return nil, err
		}
		b = x
	default:
		x, err := encodeAll(s.Enc)
		if err != nil {
			return nil, fmt.Errorf("encode: %v", err)
		}
		b = x
	}
	b = append([]byte{}, b...)
	for i, m := range s.Mut {
		switch m.Op {
		case "trunc":
			if i == len(s.Mut)-1 {
				*origin = append([]byte{}, b...)
			}
			if m.Pos < len(b) {
				b = b[:maxInt(m.Pos, 0)]
			}
		case "flip":
			if len(b) > 0 {
				p := m.Pos % (len(b) * 8)
				b[p/8] ^= 1 << uint(p%8)
			}
		case "subst":
			if len(b) > 0 {
				b[m.Pos%len(b)] = byte(m.Val)
			}
		case "append":
			r := rand.New(rand.NewSource(m.Seed))
			x := make([]byte, m.N)
			r.Read(x)
			b = append(b, x...)
		case "appendzero":
			b = append(b, make([]byte, m.N)...)
		}
	}
	return b, nil
}

// ---------------------------------------------------------------------------
// Oracles

// Oracle is what independent decoders say about a byte string.
type Oracle struct {
	RefVerdict string // "eof" | "uxeof" | "corrupt"
	RefOut     []byte
	RefEnd     int  // bytes of the stream (incl. container framing) when eof
	RefDead    bool // the bytes cannot be completed to a valid stream
	StdVerdict string
	StdLen     int
	Same       bool // std output equals ref output (when std says eof)
	Syncs      []refinflate.SyncPoint
	Hdrs       []GzHeader
	MemberEnds []int // gzip: end offset of every complete member
	MemberOuts []int // gzip: output length at the end of every complete member
	HdrLen     int
}

func verdictOf(st string) string {
	switch st {
	case "done":
		return "eof"
	case "more":
		return "uxeof"
	}
	return "corrupt"
}

// refContainer is the reference decoder for flate / gzip (multi-member) / zlib.
func refContainer(kind string, b, dict []byte, multistream bool) Oracle {
	var o Oracle
	limit := 64 << 20
	switch kind {
	case "flate":
		r := refinflate.Inflate(b, refinflate.Options{Dict: dict, MaxOut: limit, LazyEOB: true})
		o.RefVerdict, o.RefOut, o.RefEnd, o.Syncs = verdictOf(r.State), r.Out, r.EndByte, r.Syncs
		o.RefDead = r.State == "corrupt" || r.NoEOB
		return o
	case "zlib":
		if len(b) < 2 {
			o.RefVerdict = "uxeof"
			return o
		}
		cmf, flg := b[0], b[1]
		if cmf&0x0f != 8 || cmf>>4 > 7 || (uint(cmf)<<8|uint(flg))%31 != 0 {
			o.RefVerdict = "corrupt"
			return o
		}
		n := 2
		var d []byte
		if flg&0x20 != 0 {
			if len(b) < 6 {
				o.RefVerdict = "uxeof"
				return o
			}
			// (no dictionary and an empty dictionary are the same thing: Adler-32 of nothing is 1)
			if binary.BigEndian.Uint32(b[2:6]) != adler32.Checksum(dict) {
				o.RefVerdict = "corrupt"
				return o
			}
			n, d = 6, dict
		}
		o.HdrLen = n
		r := refinflate.Inflate(b[n:], refinflate.Options{Dict: d, MaxOut: limit, LazyEOB: true})
		o.RefOut = r.Out
		for _, s := range r.Syncs {
			o.Syncs = append(o.Syncs, refinflate.SyncPoint{ByteEnd: s.ByteEnd + n, OutLen: s.OutLen})
		}
		if r.State != "done" {
			o.RefVerdict = verdictOf(r.State)
			return o
		}
		tr := b[n+r.EndByte:]
		if len(tr) < 4 {
			o.RefVerdict = "uxeof"
			return o
		}
		if binary.BigEndian.Uint32(tr[:4]) != adler32.Checksum(r.Out) {
			o.RefVerdict = "corrupt"
			return o
		}
		o.RefVerdict, o.RefEnd = "eof", n+r.EndByte+4
		return o
	}
	// gzip
	pos := 0
	for {
		if pos == len(b) && (len(o.MemberEnds) > 0 || len(b) == 0) {
			// the end of the last member; an empty input is an empty, valid gzip file
			o.RefVerdict, o.RefEnd = "eof", pos
			return o
		}
		if len(b)-pos < 10 {
			o.RefVerdict = "uxeof"
			return o
		}
		n, complete, valid, h, _ := parseGzipHeader(b[pos:])
		if !valid {
			o.RefVerdict = "corrupt"
			return o
		}
		if !complete {
			o.RefVerdict = "uxeof"
			return o
		}
		if len(o.MemberEnds) == 0 {
			o.HdrLen = n
		}
		r := refinflate.Inflate(b[pos+n:], refinflate.Options{MaxOut: limit, LazyEOB: true})
		base := len(o.RefOut)
		o.RefOut = append(o.RefOut, r.Out...)
		for _, s := range r.Syncs {
			o.Syncs = append(o.Syncs, refinflate.SyncPoint{ByteEnd: s.ByteEnd + pos + n, OutLen: s.OutLen + base})
		}
		if r.State != "done" {
			o.RefVerdict = verdictOf(r.State)
			return o
		}
		tr := b[pos+n+r.EndByte:]
		if len(tr) < 8 {
			o.RefVerdict = "uxeof"
			return o
		}
		if binary.LittleEndian.Uint32(tr[:4]) != crc32.ChecksumIEEE(r.Out) || binary.LittleEndian.Uint32(tr[4:8]) != uint32(len(r.Out)) {
			o.RefVerdict = "corrupt"
			return o
		}
		pos += n + r.EndByte + 8
		o.Hdrs = append(o.Hdrs, h)
		o.MemberEnds = append(o.MemberEnds, pos)
		o.MemberOuts = append(o.MemberOuts, len(o.RefOut))
		if !multistream {
			o.RefVerdict, o.RefEnd = "eof", pos
			return o
		}
	}
}

// stdDecode runs the standard library's reader over the bytes.
func stdDecode(kind string, b, dict []byte, multistream bool) (verdict string, out []byte) {
	src := bytes.NewReader(b)
	var r io.Reader
	var err error
	switch kind {
	case "flate":
		if dict != nil {
			r = stdflate.NewReaderDict(src, dict)
		} else {
			r = stdflate.NewReader(src)
		}
	case "gzip":
		var zr *stdgzip.Reader
		zr, err = stdgzip.NewReader(src)
		if err == nil {
			zr.Multistream(multistream)
			r = zr
		}
	case "zlib":
		if dict != nil {
			r, err = stdzlib.NewReaderDict(src, dict)
		} else {
			r, err = stdzlib.NewReader(src)
		}
	}
	if err != nil {
		if err == io.EOF {
			err = io.ErrUnexpectedEOF
		}
		return verdictOf(classifyReadErr(err)), nil
	}
	o, rerr, pan := readAllGuard(r, 64<<20)
	if pan != "" {
		return "corrupt", o
	}
	return verdictOf(classifyReadErr(rerr)), o
}

var oracleCache = map[string]*Oracle{}

func oracleFor(kind string, b, dict []byte, multistream bool) *Oracle {
	key := fmt.Sprintf("%s|%v|%s|%s", kind, multistream, hashOf(b), hashOf(dict))
	if o, ok := oracleCache[key]; ok {
		return o
	}
	o := refContainer(kind, b, dict, multistream)
	if o.RefVerdict == "corrupt" {
		o.RefDead = true
	}
	var so []byte
	o.StdVerdict, so = stdDecode(kind, b, dict, multistream)
	o.StdLen = len(so)
	o.Same = bytes.Equal(so, o.RefOut[:minInt(len(so), len(o.RefOut))]) && (o.StdVerdict != "eof" || len(so) == len(o.RefOut))
	if len(oracleCache) > 4000 {
		oracleCache = map[string]*Oracle{}
	}
	oracleCache[key] = &o
	return &o
}

var _ = time.Second
var _ = fgflate.NewReader
var _ = fggzip.NewReader
var _ = fgzlib.NewReader

// SynthSpec is a descriptor of a synthesised DEFLATE stream (see synthspec.go).

// provablyCompletable reports whether the bytes are known to be the beginning
// of a valid stream: they are a truncation of a string (origin) that the
// reference decoder accepts completely.  Only then is a decoder that calls
// them corrupt wrong ("a valid stream cut short ends in io.ErrUnexpectedEOF");
// for any other input that both oracles merely ran out of, corrupt and
// unexpected EOF are both acceptable (a decoder that pads with zero bits at
// EOF may see a defect that every continuation would also hit, and whether
// one exists that avoids it cannot be decided by sampling continuations).
func provablyCompletable(kind string, b, dict, origin []byte) bool {
	if origin == nil || len(origin) <= len(b) {
		return false
	}
	o := refContainer(kind, origin, dict, true)
	return o.RefVerdict == "eof"
}
