package main

import (
	"encoding/json"
	"fmt"
	"os"
	"path/filepath"
	"sort"
	"strings"
)

// Finding is one entry of /verif/known_findings.json.
type Finding struct {
	ID       string              `json:"id"`
	Property string              `json:"property"`
	Status   string              `json:"status"` // "open" | "fixed"
	Commit   string              `json:"commit,omitempty"`
	Clauses  []string            `json:"clauses"` // clause names this finding explains
	Match    map[string][]string `json:"match"`   // path in the violation record -> allowed values (all must match)
	What     string              `json:"what"`
}

func loadFindings(root string) ([]Finding, error) {
	b, err := os.ReadFile(filepath.Join(root, "known_findings.json"))
	if os.IsNotExist(err) {
		return nil, nil
	}
	if err != nil {
		return nil, err
	}
	var doc struct {
		Findings []Finding `json:"findings"`
	}
	if err := json.Unmarshal(b, &doc); err != nil {
		return nil, fmt.Errorf("known_findings.json: %v", err)
	}
	return doc.Findings, nil
}

func lookup(rec map[string]interface{}, path string) (string, bool) {
	var cur interface{} = rec
	for _, p := range strings.Split(path, ".") {
		m, ok := cur.(map[string]interface{})
		if !ok {
			return "", false
		}
		cur, ok = m[p]
		if !ok {
			return "", false
		}
	}
	switch v := cur.(type) {
	case string:
		return v, true
	case float64:
		return fmt.Sprintf("%v", v), true
	case bool:
		return fmt.Sprintf("%v", v), true
	case nil:
		return "null", true
	}
	b, _ := json.Marshal(cur)
	return string(b), true
}

// matchFinding reports the open finding that explains a violated clause of a case, if any.
func matchFinding(fs []Finding, prop, clause string, rec map[string]interface{}) *Finding {
	for i := range fs {
		f := &fs[i]
		if f.Status != "open" || f.Property != prop {
			continue
		}
		ok := false
		for _, c := range f.Clauses {
			if c == clause {
				ok = true
			}
		}
		if !ok {
			continue
		}
		all := true
		for path, vals := range f.Match {
			got, present := lookup(rec, path)
			hit := false
			if present {
				for _, v := range vals {
					if v == got {
						hit = true
					}
				}
			}
			if !hit {
				all = false
				break
			}
		}
		if all {
			return f
		}
	}
	return nil
}

// Candidate is a case with violated clauses of the property under check.
type Candidate struct {
	Case    Case
	Group   []Case // all members of the case's comparison group in trace order (nil if none)
	Arch    int
	Clauses []string
	Event   string
}

// Report turns the violations of a validated trace into the check's verdict:
// known findings are named, everything else is re-executed from its replay
// file and, if it is rejected again, reported as a VIOLATION (R1).
func (c *Ctx) Report(viols []Viol, cases map[string]Case, module, cfg string) (violations int, err error) {
	var order0 []string
	for id := range cases {
		order0 = append(order0, id)
	}
	sort.Slice(order0, func(i, j int) bool { return caseLess(order0[i], order0[j]) })
	fs, err := loadFindings(c.Root)
	if err != nil {
		return 0, err
	}
	prefix := c.Prop + "."
	groups := map[string][]Case{}
	for _, id := range order0 {
		if g, ok := cases[id].(grouped); ok && g.GroupKey() != "" {
			groups[g.GroupKey()] = append(groups[g.GroupKey()], cases[id])
		}
	}
	byCase := map[string]*Candidate{}
	var order []string
	other := map[string]int{}
	for _, v := range viols {
		for _, cl := range v.Clauses {
			if !strings.HasPrefix(cl, prefix) {
				other[cl]++
				continue
			}
			cs, ok := cases[v.Case]
			if !ok {
				return 0, fmt.Errorf("violation refers to unknown case %q", v.Case)
			}
			cd := byCase[v.Case]
			if cd == nil {
				cd = &Candidate{Case: cs, Arch: cs.Header().Arch, Event: v.Event}
				if g, ok := cs.(grouped); ok && g.GroupKey() != "" {
					cd.Group = groups[g.GroupKey()]
				}
				byCase[v.Case] = cd
				order = append(order, v.Case)
			}
			dup := false
			for _, x := range cd.Clauses {
				if x == cl {
					dup = true
				}
			}
			if !dup {
				cd.Clauses = append(cd.Clauses, cl)
			}
		}
	}
	if len(other) > 0 {
		var ks []string
		for k, n := range other {
			ks = append(ks, fmt.Sprintf("%s x%d", k, n))
		}
		sort.Strings(ks)
		c.logf("note: clauses of other properties were violated in this run (their own checks decide them): %s", strings.Join(ks, ", "))
		c.ev.Extra["other_property_clauses"] = ks
	}
	knownSeen := map[string]int{}
	var fresh []*Candidate
	for _, id := range order {
		cd := byCase[id]
		rec := violationRecord(cd)
		unexplained := false
		for _, cl := range cd.Clauses {
			if f := matchFinding(fs, c.Prop, cl, rec); f != nil {
				knownSeen[f.ID]++
			} else {
				unexplained = true
			}
		}
		if unexplained {
			fresh = append(fresh, cd)
		}
	}
	for _, f := range fs {
		if n := knownSeen[f.ID]; n > 0 {
			fmt.Printf("KNOWN-FINDING: property=%s %s (%s; %d cases in this run)\n", f.Property, f.ID, f.What, n)
			c.ev.Known = append(c.ev.Known, f.ID)
		}
	}
	if len(fresh) == 0 {
		return 0, nil
	}
	// confirm by re-execution, a bounded number of distinct signatures
	seenSig := map[string]bool{}
	var confirm []*Candidate
	for _, cd := range fresh {
		sig := strings.Join(cd.Clauses, ",") + "|" + cd.Case.Header().Family
		if seenSig[sig] && len(confirm) >= 8 {
			continue
		}
		seenSig[sig] = true
		confirm = append(confirm, cd)
		if len(confirm) >= 24 {
			break
		}
	}
	n := 0
	for _, cd := range confirm {
		path, rerr := c.writeReplay(cd)
		if rerr != nil {
			return n, rerr
		}
		// what a concurrency case shows depends on the scheduler: it is re-executed until the
		// violation shows again (every execution is one of the real code), a bounded number of times
		tries := 1
		if cd.Case.Header().Family == "conc" {
			tries = 40
		}
		var ok bool
		var again []string
		for t := 0; t < tries && !ok; t++ {
			ok, again, rerr = c.replayOnce(cd, module, cfg)
			if rerr != nil {
				return n, fmt.Errorf("replay of %s failed: %v", path, rerr)
			}
		}
		if !ok {
			c.logf("UNREPRODUCED: case %s violated %v once but not when re-executed; no verdict from it", cd.Case.Header().ID, cd.Clauses)
			c.ev.Extra["unreproduced"] = append(asSlice(c.ev.Extra["unreproduced"]), cd.Case.Header().ID)
			os.Remove(path)
			continue
		}
		n++
		fmt.Printf("VIOLATION property=%s replay=%s clauses=%s case=%s\n", c.Prop, path, strings.Join(again, ","), cd.Case.Header().ID)
	}
	if n == 0 && len(confirm) > 0 {
		return 0, fmt.Errorf("%d violating cases could not be reproduced on re-execution", len(confirm))
	}
	if extra := len(fresh) - len(confirm); extra > 0 {
		c.logf("%d further violating cases share signatures with the reported ones", extra)
	}
	return n, nil
}

func asSlice(v interface{}) []interface{} {
	if s, ok := v.([]interface{}); ok {
		return s
	}
	return nil
}

func violationRecord(cd *Candidate) map[string]interface{} {
	rec := map[string]interface{}{}
	b, _ := json.Marshal(cd.Case)
	var cm map[string]interface{}
	json.Unmarshal(b, &cm)
	rec["case"] = cm
	var em0 map[string]interface{}
	json.Unmarshal([]byte(cd.Event), &em0)
	if segs, ok := cm["segs"].([]interface{}); ok && len(segs) > 0 {
		rec["last"] = segs[len(segs)-1] // the segment of a reader case the violating event belongs to (default: the last)
		if em0 != nil && em0["ev"] == "End" {
			if si, ok := em0["seg"].(float64); ok && int(si) < len(segs) {
				rec["last"] = segs[int(si)]
			}
		}
	}
	var em map[string]interface{}
	json.Unmarshal([]byte(cd.Event), &em)
	rec["event"] = em
	if em != nil && em["ev"] == "End" {
		rest, _ := em["rest"].(float64)
		want, _ := em["wantRest"].(float64)
		switch {
		case want < 0:
		case rest < want && want-rest <= 4096:
			rec["symptom"] = "overread<=4096"
		case rest < want:
			rec["symptom"] = "overread>4096"
		case rest > want:
			rec["symptom"] = "underread"
		}
	}
	return rec
}

// Replay is the content of a replay file.
type Replay struct {
	Group    []json.RawMessage `json:"group,omitempty"` // the whole comparison group, in order, when the clause compares cases
	Property string            `json:"property"`
	Clauses  []string          `json:"clauses"`
	Arch     int               `json:"arch"`
	Module   string            `json:"module"`
	Cfg      string            `json:"cfg"`
	Case     json.RawMessage   `json:"case"`
	Event    json.RawMessage   `json:"event,omitempty"`
}

func (c *Ctx) writeReplay(cd *Candidate) (string, error) {
	cb, err := json.Marshal(cd.Case)
	if err != nil {
		return "", err
	}
	r := Replay{Property: c.Prop, Clauses: cd.Clauses, Arch: cd.Arch, Case: cb}
	for _, g := range cd.Group {
		gb, err := json.Marshal(g)
		if err != nil {
			return "", err
		}
		r.Group = append(r.Group, gb)
	}
	if json.Valid([]byte(cd.Event)) {
		r.Event = json.RawMessage(cd.Event)
	}
	b, _ := json.MarshalIndent(r, "", " ")
	dir := filepath.Join(c.Root, "replays")
	os.MkdirAll(dir, 0o755)
	path := filepath.Join(dir, fmt.Sprintf("%s-%s.json", c.Prop, hashOf(cb)))
	return path, os.WriteFile(path, b, 0o644)
}

// replayOnce re-executes one case and validates its trace again.
func (c *Ctx) replayOnce(cd *Candidate, module, cfg string) (bool, []string, error) {
	run := []Case{cd.Case}
	if len(cd.Group) > 0 {
		run = cd.Group
	}
	race := cd.Case.Header().Family == "conc" && os.Getenv("VERIF_RACE_BIN") != ""
	trace, err := c.Execute("replay-"+hashOf([]byte(cd.Case.Header().ID)), run, race)
	if err != nil {
		return false, nil, err
	}
	viols, _, err := c.Validate(module, cfg, trace, false)
	os.Remove(trace)
	if err != nil {
		return false, nil, err
	}
	prefix := c.Prop + "."
	set := map[string]bool{}
	for _, v := range viols {
		if v.Case != cd.Case.Header().ID {
			continue
		}
		for _, cl := range v.Clauses {
			if strings.HasPrefix(cl, prefix) {
				set[cl] = true
			}
		}
	}
	var again []string
	for k := range set {
		again = append(again, k)
	}
	sort.Strings(again)
	return len(again) > 0, again, nil
}

// regressCases loads the replay files kept under regress/<property>/: cases
// that once violated the property (before a repair) and are re-run forever.
func (c *Ctx) regressCases() ([]Case, error) {
	dir := filepath.Join(c.Root, "regress", c.Prop)
	ents, err := os.ReadDir(dir)
	if os.IsNotExist(err) {
		return nil, nil
	}
	if err != nil {
		return nil, err
	}
	var out []Case
	for _, e := range ents {
		if !strings.HasSuffix(e.Name(), ".json") {
			continue
		}
		b, err := os.ReadFile(filepath.Join(dir, e.Name()))
		if err != nil {
			return nil, err
		}
		var r Replay
		if err := json.Unmarshal(b, &r); err != nil {
			return nil, fmt.Errorf("%s: %v", e.Name(), err)
		}
		base := "regress-" + strings.TrimSuffix(e.Name(), ".json")
		arch := func(a int) int {
			if a > c.Host {
				return c.Host
			}
			return a
		}
		if len(r.Group) > 0 {
			// a comparison group: all members, in order, under a group key of their own
			for i, g := range r.Group {
				gc, _, _, err := decodeCase(g)
				if err != nil {
					return nil, fmt.Errorf("%s: %v", e.Name(), err)
				}
				setCaseIdentity(gc, fmt.Sprintf("%s-%d", base, i), arch(gc.Header().Arch), base)
				out = append(out, gc)
			}
			continue
		}
		cs, _, _, err := decodeCase(r.Case)
		if err != nil {
			return nil, fmt.Errorf("%s: %v", e.Name(), err)
		}
		setCaseIdentity(cs, base, arch(r.Arch), "")
		out = append(out, cs)
	}
	c.ev.Extra["regression_cases"] = len(out)
	return out, nil
}

func setCaseIdentity(cs Case, id string, arch int, group string) {
	switch v := cs.(type) {
	case *WCase:
		v.ID, v.Arch = id, arch
	default:
		if f, ok := identitySetters[cs.Header().Family]; ok {
			f(cs, id, arch, group)
		}
	}
}

var identitySetters = map[string]func(Case, string, int, string){}

// grouped cases take part in a comparison with other cases.
type grouped interface{ GroupKey() string }

// caseLess orders case ids the way generators number them (numeric parts compare numerically).
func caseLess(a, b string) bool {
	na, nb := numParts(a), numParts(b)
	for i := 0; i < len(na) && i < len(nb); i++ {
		if na[i] != nb[i] {
			return na[i] < nb[i]
		}
	}
	if len(na) != len(nb) {
		return len(na) < len(nb)
	}
	return a < b
}

func numParts(s string) []int {
	var out []int
	cur, in := 0, false
	for _, r := range s {
		if r >= '0' && r <= '9' {
			cur = cur*10 + int(r-'0')
			in = true
		} else if in {
			out = append(out, cur)
			cur, in = 0, false
		}
	}
	if in {
		out = append(out, cur)
	}
	return out
}
