package main

import (
	"encoding/json"
	"fmt"
	"math/rand"
	"sort"
	"time"
)

// thresholds returns byte counts at and around the internal limits of the
// compressors for a setting (placement only; the verdict never depends on them).
func thresholds(set WSetting) []int {
	cp := capOf(set)
	w := set.Window
	t := []int{1, 7, 8, 9, 258, 259, w - 1, w, w + 1, cp - 1, cp, cp + 1, 65535, 65536, 65537, 2*cp + 3, 32767, 32768, 32769}
	for _, p := range fillPoints(set) {
		t = append(t, p-1, p, p+1)
	}
	sort.Ints(t)
	return t
}

func pick(rng *rand.Rand, xs []int) int { return xs[rng.Intn(len(xs))] }

// fillPoints: cumulative input sizes at which the accumulation buffer of
// fastgo's own compressors becomes exactly full (first fill, then after every
// slide), plus the 16-bit position wrap and the token-block limit.
func fillPoints(set WSetting) []int {
	cp := capOf(set)
	step := cp - set.Window
	if set.Level == -2 {
		step = cp
	}
	var pts []int
	for k := 0; k < 4; k++ {
		pts = append(pts, cp+k*step)
	}
	return append(pts, 32767, 32768, 65535, 65536, 131072)
}

// concreteSize maps an abstract Write size class to bytes; total is the
// number of bytes written so far in this stream, so that a large Write can
// end exactly at, one before or one after a fill point.
func concreteSize(rng *rand.Rand, set WSetting, class int, total int) int {
	cp := capOf(set)
	switch class {
	case 0:
		return 0
	case 1:
		return pick(rng, []int{1, 1, 2, 7, 8, 9, 100, 258, 259, 1 + rng.Intn(2000)})
	default:
		if rng.Intn(10) < 6 {
			var cand []int
			for _, p := range fillPoints(set) {
				for d := -1; d <= 1; d++ {
					if p+d > total {
						cand = append(cand, p+d-total)
					}
				}
			}
			if len(cand) > 0 {
				return pick(rng, cand)
			}
		}
		return pick(rng, []int{cp - 1, cp, cp + 1, cp + 7, 65535, 65536, 65537, cp + rng.Intn(5000), 2*cp + 3})
	}
}

func randData(rng *rand.Rand, n int) DataSpec {
	return DataSpec{Class: dataClasses[rng.Intn(len(dataClasses))], Seed: rng.Int63n(1 << 30), Len: n, Period: pick(rng, []int{1, 2, 3, 64, 255, 4095, 4096, 4097, 32767, 32768, 32769, 1 + rng.Intn(400)})}
}

// histCases turns TLC histories into writer cases on rotating settings.
func (c *Ctx) histCases(prefix string, behs []string, rng *rand.Rand, settings []WSetting, perHist int, suffix []Op, keep func([]hop) bool) ([]*WCase, error) {
	var cases []*WCase
	for i, b := range behs {
		h, err := parseHist(b)
		if err != nil {
			return nil, err
		}
		if keep != nil && !keep(h) {
			continue
		}
		for k := 0; k < perHist; k++ {
			set := settings[(i*perHist+k*5+int(c.Seed))%len(settings)]
			cs := &WCase{ID: fmt.Sprintf("%s-%d-%d", prefix, i, k), Set: set, Tag: settingTag(set)}
			total, stream := 0, 0
			for _, o := range h {
				op := Op{Op: o.Op}
				if o.Op == "W" {
					op.N = concreteSize(rng, set, o.N, stream)
					total += op.N
					stream += op.N
				}
				if o.Op == "R" {
					stream = 0
				}
				cs.Ops = append(cs.Ops, op)
			}
			cs.Ops = append(cs.Ops, suffix...)
			if c.reusePrefix && (i+k)%3 == 2 {
				// a reused Writer: an earlier stream (abandoned mid-way or closed), then Reset
				n0 := pick(rng, []int{1, 300, capOf(set) + 17})
				pre := []Op{{Op: "W", N: n0}}
				if (i+k)%2 == 0 {
					pre = append(pre, Op{Op: "C"})
				}
				cs.Ops = append(append(pre, Op{Op: "R"}), cs.Ops...)
				if n0 > total {
					total = n0
				}
				cs.Tag += "|reused"
			}
			cs.Data = randData(rng, total)
			cases = append(cases, cs)
		}
	}
	return cases, nil
}

func countOp(ops []Op, op string) int {
	n := 0
	for _, o := range ops {
		if o.Op == op {
			n++
		}
	}
	return n
}

// ---------------------------------------------------------------------------
// C10: after Flush everything written so far decodes

func init() { checks["C10"] = checkC10 }

func checkC10(c *Ctx) (int, error) {
	c.mech = true
	c.ev.Level = "model_checking"
	c.ev.Assumptions = []string{"Write/Flush histories exhaustive up to the stated length over abstract size classes; payload bytes and the concrete size inside a class are seeded samples",
		"'any conforming inflater' is represented by the RFC 1951 reference inflater of the harness and compress/flate (gzip/zlib: the standard library's container readers)"}
	if err := c.writerModels(); err != nil {
		return 0, err
	}
	maxLen, per := 4, 10
	if c.Tier == "thorough" {
		maxLen, per = 6, 12
	}
	cfg := genCfg(`"flate"`, []int{0, 1, 2}, maxLen, 0, false, []string{"Write", "Flush"}, "")
	behs, err := c.Behaviours("WriterModel", "GEN_C10.cfg", map[string]string{"GEN_C10.cfg": cfg}, 10*time.Minute)
	if err != nil {
		return 0, err
	}
	rng := rand.New(rand.NewSource(c.Seed))
	c.reusePrefix = true
	cases, err := c.histCases("C10", behs, rng, allWSettings, per, []Op{{Op: "W", N: 1}, {Op: "C"}}, func(h []hop) bool {
		for _, o := range h {
			if o.Op == "F" {
				return true
			}
		}
		return false
	})
	if err != nil {
		return 0, err
	}
	for _, cs := range cases {
		cs.Data.Len += 1
	}
	// Flush directly behind the longest codes of a block whose Huffman tree is as deep as the format allows
	// (the bit accumulator of the encoders is at its fullest there), for a range of lengths
	for _, base := range []int{20000, 60000} {
		for v := 0; v < 48; v++ {
			n := base + v
			set := accelSettings[v%len(accelSettings)]
			if v%4 != 3 {
				set = accelSettings[4*((v/4)%2)]
			}
			cs := &WCase{ID: fmt.Sprintf("C10-deep-%d", n), Set: set, Tag: settingTag(set) + "|deep",
				Data: DataSpec{Class: "deepclust", Seed: rng.Int63n(1 << 30), Len: n + 1, Period: n},
				Ops:  []Op{{Op: "W", N: n}, {Op: "F"}, {Op: "W", N: 1}, {Op: "C"}}}
			cases = append(cases, cs)
		}
	}
	// the compressor's position inside its sliding buffer (WriterMech: idx, end) is the same at two
	// consecutive Flushes although data arrived in between: a Flush at buffer position p in
	// [2W, 2W+258] (the buffer slides by p-W at the next Write), then exactly p-W more bytes, Flush
	// again, W more bytes, Flush, one byte, Close
	nAlias := 0
	for si, set := range accelSettings {
		for _, dp := range []int{0, 1, 2 + rng.Intn(255), 257, 258} {
			if c.Tier != "thorough" && (dp+si)%2 == 1 {
				continue
			}
			W := set.Window
			p := 2*W + dp
			cl := []string{"text", "runs", "uniform"}[(si+dp)%3]
			cs := &WCase{ID: fmt.Sprintf("C10-alias-%d-%d-%d", si, W, dp), Set: set, Tag: settingTag(set) + "|alias",
				Data: DataSpec{Class: cl, Seed: rng.Int63n(1 << 30), Len: p + (p - W) + W + 1},
				Ops:  []Op{{Op: "W", N: p}, {Op: "F"}, {Op: "W", N: p - W}, {Op: "F"}, {Op: "W", N: W}, {Op: "F"}, {Op: "W", N: 1}, {Op: "C"}}}
			cases = append(cases, cs)
			nAlias++
		}
	}
	for _, cs := range cases {
		c.ev.nontrivial(histString(cs.Ops) + "|" + cs.Tag)
	}
	c.ev.Rule = fmt.Sprintf("every history of %d calls over {Write(0|small|large), Flush} with at least one Flush (TLC, WriterModel), followed by Write(1) and Close, each on %d of %d settings (flate/gzip/zlib, levels -2..9, both windows, dictionaries); every Flush event is judged; distinct by (concrete history, setting)", maxLen, per, len(allWSettings))
	c.ev.Exhaustive = true
	for _, cs := range spread(cases) {
		c.ev.sample(map[string]interface{}{"history": histString(cs.Ops), "setting": cs.Tag, "data": cs.Data})
	}
	deep := 0
	for _, cs := range cases {
		if cs.Data.Class == "deepclust" && cs.Data.Period > 0 {
			deep++
		}
	}
	// (the targeted cases run at every acceleration level, the histories round-robin)
	deep += nAlias
	run := c.spreadArch(cases[:len(cases)-deep], false)
	run = append(run, c.spreadArch(cases[len(cases)-deep:], true)...)
	return c.writerRun("c10", run, true)
}

// ---------------------------------------------------------------------------
// C01: round trip

func init() { checks["C01"] = checkC01 }

func checkC01(c *Ctx) (int, error) {
	c.ev.Level = "model_checking"
	c.ev.Assumptions = []string{"call histories (Write/Flush partitions) exhaustive up to the stated length; data bytes sampled from seeded classes",
		"decoders: compress/flate, the harness's RFC 1951 reference inflater, fastgo's own Reader"}
	if err := c.writerModels(); err != nil {
		return 0, err
	}
	maxLen, per := 4, 3
	if c.Tier == "thorough" {
		maxLen, per = 5, 8
	}
	cfg := genCfg(`"flate"`, []int{0, 1, 2}, maxLen, 0, false, []string{"Write", "Flush"}, "")
	behs, err := c.Behaviours("WriterModel", "GEN_C01.cfg", map[string]string{"GEN_C01.cfg": cfg}, 10*time.Minute)
	if err != nil {
		return 0, err
	}
	rng := rand.New(rand.NewSource(c.Seed))
	var flateOnly []WSetting
	for _, s := range allWSettings {
		if s.Kind == "flate" {
			flateOnly = append(flateOnly, s)
		}
	}
	for l := 3; l <= 9; l++ { // the remaining delegated levels
		if l != 3 && l != 6 && l != 9 {
			flateOnly = append(flateOnly, WSetting{Kind: "flate", Level: l, Window: 32768})
		}
	}
	c.reusePrefix = true
	cases, err := c.histCases("C01", behs, rng, flateOnly, per, []Op{{Op: "C"}}, nil)
	if err != nil {
		return 0, err
	}
	// long inputs: several buffer slides and 16-bit position wraps
	nLong := 40
	if c.Tier == "thorough" {
		nLong = 400
	}
	for i := 0; i < nLong; i++ {
		set := flateOnly[(i+int(c.Seed))%len(flateOnly)]
		n := pick(rng, []int{131072, 200000, 300000, 65536*2 + 17, 65536*3 - 1})
		cs := &WCase{ID: fmt.Sprintf("C01-long-%d", i), Set: set, Tag: settingTag(set), Data: randData(rng, n)}
		left := n
		for left > 0 {
			k := minInt(left, 1+rng.Intn(n/2))
			cs.Ops = append(cs.Ops, Op{Op: "W", N: k})
			left -= k
			if rng.Intn(4) == 0 {
				cs.Ops = append(cs.Ops, Op{Op: "F"})
			}
		}
		cs.Ops = append(cs.Ops, Op{Op: "C"})
		cases = append(cases, cs)
	}
	// Huffman-only streams of exactly one, two or three full 64 KiB blocks and no Flush: Close finds
	// nothing buffered while the bit accumulator still holds the end of the last block (how many bits
	// depends on the data: many data seeds per size), in one Write and in pieces
	nFull := 36
	if c.Tier == "thorough" {
		nFull = 360
	}
	for i := 0; i < nFull; i++ {
		set := WSetting{Kind: []string{"flate", "flate", "gzip", "zlib"}[i%4], Level: -2, Window: 32768}
		if i%4 == 1 {
			set.Window = 4096
		}
		n := 65536 * (1 + i%3)
		cs := &WCase{ID: fmt.Sprintf("C01-fullblocks-%d", i), Set: set, Tag: settingTag(set) + "|fullblocks", Data: randData(rng, n)}
		left := n
		for left > 0 {
			k := left
			if i%2 == 1 {
				k = minInt(left, 1+rng.Intn(n/2))
			}
			cs.Ops = append(cs.Ops, Op{Op: "W", N: k})
			left -= k
		}
		cs.Ops = append(cs.Ops, Op{Op: "C"})
		cases = append(cases, cs)
	}
	// inputs made mostly of far back-references of every length (the vector encoders pack eight tokens at a time)
	nCopies := 60
	if c.Tier == "thorough" {
		nCopies = 1000
	}
	for i := 0; i < nCopies; i++ {
		set := accelSettings[(i+int(c.Seed))%len(accelSettings)]
		n := 100000 + rng.Intn(200000)
		cs := &WCase{ID: fmt.Sprintf("C01-copies-%d", i), Set: set, Tag: settingTag(set), Data: DataSpec{Class: []string{"copies", "copies", "pruns"}[i%3], Seed: rng.Int63n(1 << 30), Len: n}}
		cs.Ops = []Op{{Op: "W", N: n}, {Op: "C"}}
		cases = append(cases, cs)
	}
	// a block of exactly as many tokens as the token buffer holds (32767 literals of incompressible
	// data, give or take a few), followed by a repetition much longer than one copy can express:
	// the copy that fills the buffer, and the ones after it, belong to different blocks
	for d := -4; d <= 4; d++ {
		for vi, rep := range []int{259, 600, 1500} {
			set := accelSettings[((d+4)*3+vi)%len(accelSettings)]
			if set.Level == -2 {
				set = accelSettings[1]
			}
			n := 32767 + d
			cs := &WCase{ID: fmt.Sprintf("C01-tokfull-%d-%d", d+4, vi), Set: set, Tag: settingTag(set) + "|tokens-full+long-match",
				Data: DataSpec{Class: "uniform+repeat", Seed: rng.Int63n(1 << 30), Len: n + rep + 50, Period: n},
				Ops:  []Op{{Op: "W", N: n + rep + 50}, {Op: "C"}}}
			cases = append(cases, cs)
		}
	}
	// deep distance trees
	for i := 0; i < 24; i++ {
		set := accelSettings[i%len(accelSettings)]
		if set.Level == -2 {
			set = accelSettings[2+(i/4)%2]
		}
		n := 60000 + rng.Intn(200000)
		cs := &WCase{ID: fmt.Sprintf("C01-deepdist-%d", i), Set: set, Tag: settingTag(set) + "|deepdist",
			Data: DataSpec{Class: "deepdist", Seed: rng.Int63n(1 << 30), Len: n}, Ops: []Op{{Op: "W", N: n}, {Op: "C"}}}
		cases = append(cases, cs)
	}
	// size sweeps around the points where the compressed output fills an 8 KiB output piece, and
	// short inputs with exactly one match at the very end
	sweep := 1
	if c.Tier == "thorough" {
		sweep = 4
	}
	for rep := 0; rep < sweep; rep++ {
		for _, sw := range []struct {
			class string
			lo    int
		}{{"uniform", 8100}, {"uniform", 16290}, {"nearuniform", 8100}, {"digits", 19400}, {"fib", 12000}, {"deepclust", 30000}, {"deepclust", 65480}} {
			for n := sw.lo; n < sw.lo+110; n++ {
				set := accelSettings[(n+rep)%len(accelSettings)]
				if sw.class == "deepclust" && n%4 != 3 {
					set = accelSettings[4*((n/4)%2)] // mostly the Huffman-only encoder, whose codes are the longest
				}
				cs := &WCase{ID: fmt.Sprintf("C01-sweep-%s-%d-%d", sw.class, n, rep), Set: set, Tag: settingTag(set), Data: DataSpec{Class: sw.class, Seed: rng.Int63n(1 << 30), Len: n}}
				cs.Ops = []Op{{Op: "W", N: n}, {Op: "C"}}
				cases = append(cases, cs)
			}
		}
		for i := 0; i < 400; i++ {
			set := accelSettings[i%len(accelSettings)]
			n := 16 + rng.Intn(600)
			cs := &WCase{ID: fmt.Sprintf("C01-onerepeat-%d-%d", i, rep), Set: set, Tag: settingTag(set), Data: DataSpec{Class: "onerepeat", Seed: rng.Int63n(1 << 30), Len: n}}
			cs.Ops = []Op{{Op: "W", N: n}, {Op: []string{"C", "F"}[i%2]}}
			if i%2 == 1 {
				cs.Ops = append(cs.Ops, Op{Op: "C"})
			}
			cases = append(cases, cs)
		}
	}
	bulk := bulkCases(c, rng, "C01")
	cases = append(cases, bulk...)
	c.ev.Extra["bulk_streams_at_piece_boundaries"] = len(bulk) * bulk[0].Bulk * len(c.Levels)
	for _, cs := range cases {
		if cs.Data.Len > 0 {
			c.ev.nontrivial(histString(cs.Ops) + "|" + cs.Tag + "|" + cs.Data.Class)
		}
	}
	c.ev.Rule = fmt.Sprintf("every history of %d calls over {Write(0|small|large), Flush} then Close (TLC, WriterModel) on %d of %d flate settings (levels -2..9, default, 4K window, dictionaries) at EVERY acceleration level, plus %d long multi-slide inputs, inputs made of far back-references of every length, size sweeps around the 8 KiB output-piece boundaries and short inputs with a single match at the very end; non-trivial = non-empty data; distinct by (history, setting, data class)", maxLen, per, len(flateOnly), nLong)
	c.ev.Exhaustive = true
	for _, cs := range spread(cases) {
		c.ev.sample(map[string]interface{}{"history": histString(cs.Ops), "setting": cs.Tag, "data": cs.Data})
	}
	return c.writerRun("c01", c.spreadArch(cases, true), true)
}

// ---------------------------------------------------------------------------
// C09 / C19 share the partition generator

type partBeh struct {
	F []int `json:"f"`
	A []int `json:"a"`
	B []int `json:"b"`
}

func (c *Ctx) partitions(name string, u, maxFlush, maxCuts int) ([]partBeh, error) {
	cfg := fmt.Sprintf("SPECIFICATION Spec\nCONSTANTS\n  U = %d\n  MaxFlush = %d\n  MaxCuts = %d\nINVARIANTS PrintPair\nCHECK_DEADLOCK FALSE\n", u, maxFlush, maxCuts)
	behs, err := c.Behaviours("PartitionGen", name, map[string]string{name: cfg}, 10*time.Minute)
	if err != nil {
		return nil, err
	}
	var out []partBeh
	for _, b := range behs {
		var p partBeh
		if err := json.Unmarshal([]byte(b), &p); err != nil {
			return nil, err
		}
		out = append(out, p)
	}
	return out, nil
}

// boundaries picks u-1 increasing byte offsets in (0,total) at and around thresholds.
func boundaries(rng *rand.Rand, set WSetting, u, total int) []int {
	th := thresholds(set)
	cand := map[int]bool{}
	for len(cand) < u-1 {
		var x int
		if rng.Intn(3) > 0 {
			x = pick(rng, th)
		} else {
			x = 1 + rng.Intn(total-1)
		}
		if x > 0 && x < total {
			cand[x] = true
		}
	}
	var out []int
	for x := range cand {
		out = append(out, x)
	}
	sort.Ints(out)
	return out
}

// opsFor builds the op list of one partition: cuts and flushes are unit boundaries.
func opsFor(bounds []int, total int, cuts, flushes []int, rng *rand.Rand, empties bool) []Op {
	isCut := map[int]bool{}
	isFl := map[int]bool{}
	for _, x := range cuts {
		isCut[x] = true
	}
	for _, x := range flushes {
		isFl[x] = true
		isCut[x] = true
	}
	var ops []Op
	prev := 0
	emit := func(upto int) {
		if empties && rng.Intn(4) == 0 {
			ops = append(ops, Op{Op: "W", N: 0})
		}
		ops = append(ops, Op{Op: "W", N: upto - prev})
		prev = upto
	}
	for u := 1; u <= len(bounds); u++ {
		if isCut[u] {
			emit(bounds[u-1])
		}
		if isFl[u] {
			ops = append(ops, Op{Op: "F"})
		}
	}
	emit(total)
	ops = append(ops, Op{Op: "C"})
	return ops
}

var accelSettings = []WSetting{
	{Kind: "flate", Level: -2, Window: 32768}, {Kind: "flate", Level: -1, Window: 32768},
	{Kind: "flate", Level: 1, Window: 32768}, {Kind: "flate", Level: 2, Window: 32768},
	{Kind: "flate", Level: -2, Window: 4096}, {Kind: "flate", Level: -1, Window: 4096},
	{Kind: "flate", Level: 1, Window: 4096}, {Kind: "flate", Level: 2, Window: 4096},
}

func init() { checks["C09"] = checkC09 }

func checkC09(c *Ctx) (int, error) {
	c.mech = true
	c.ev.Level = "model_checking"
	c.ev.Assumptions = []string{"pairs of partitions exhaustive over unit boundaries (TLC, PartitionGen); the byte offset of each boundary and the data are seeded samples placed at and around buffer, window and 64 KiB thresholds"}
	u, mf, mc := 5, 2, 3
	if c.Tier == "thorough" {
		u, mf, mc = 6, 2, 4
	}
	parts, err := c.partitions("GEN_C09.cfg", u, mf, mc)
	if err != nil {
		return 0, err
	}
	rng := rand.New(rand.NewSource(c.Seed))
	var cases []*WCase
	for i, p := range parts {
		set := accelSettings[(i+int(c.Seed))%len(accelSettings)]
		total := 2*capOf(set) + 3 + rng.Intn(20000)
		b := boundaries(rng, set, u, total)
		cs := &WCase{ID: fmt.Sprintf("C09-%d", i), Set: set, Tag: settingTag(set), Data: randData(rng, total), Cmp: "C09"}
		cs.Ops = opsFor(b, total, p.A, p.F, rng, true)
		cs.Shadow = opsFor(b, total, p.B, p.F, rng, true)
		cases = append(cases, cs)
		c.ev.nontrivial(histString(cs.Ops) + "|" + histString(cs.Shadow) + "|" + cs.Tag)
	}
	// very large single Writes against the same data in pieces
	for i, set := range accelSettings {
		total := pick(rng, []int{300000, 524288 + 5000, 700000})
		cs := &WCase{ID: fmt.Sprintf("C09-big-%d", i), Set: set, Tag: settingTag(set), Data: randData(rng, total), Cmp: "C09"}
		first := pick(rng, []int{262144, 262145, 300000, total - 5000})
		cs.Ops = []Op{{Op: "W", N: first}, {Op: "W", N: total - first}, {Op: "C"}}
		left := total
		for left > 0 {
			k := minInt(left, 1+rng.Intn(100000))
			cs.Shadow = append(cs.Shadow, Op{Op: "W", N: k})
			left -= k
		}
		cs.Shadow = append(cs.Shadow, Op{Op: "C"})
		cases = append(cases, cs)
	}
	// one-byte writes against one big write
	for i, set := range accelSettings {
		total := capOf(set) + 300 + rng.Intn(300)
		cs := &WCase{ID: fmt.Sprintf("C09-bytes-%d", i), Set: set, Tag: settingTag(set), Data: randData(rng, total), Cmp: "C09"}
		for k := 0; k < total; k++ {
			cs.Ops = append(cs.Ops, Op{Op: "W", N: 1})
		}
		cs.Ops = append(cs.Ops, Op{Op: "C"})
		cs.Shadow = []Op{{Op: "W", N: total}, {Op: "C"}}
		cs.CountOnly = true // 66 000 events need no projection each; the comparison is the point
		cases = append(cases, cs)
	}
	c.ev.Rule = fmt.Sprintf("every triple (flush positions <= %d, cuts A <= %d, cuts B <= %d, A # B) over %d units (TLC, PartitionGen), mapped to byte offsets, with random empty writes, on the 8 accelerated settings in rotation; plus 1-byte-writes against one write; distinct by (both op lists, setting)", mf, mc, mc, u)
	c.ev.Exhaustive = true
	for _, cs := range spread(cases) {
		c.ev.sample(map[string]interface{}{"a": histString(cs.Ops), "b": histString(cs.Shadow), "setting": cs.Tag, "data": cs.Data})
	}
	return c.writerRun("c09", c.spreadArch(cases, false), false)
}

// ---------------------------------------------------------------------------
// C12: Reset

func init() { checks["C12"] = checkC12 }

func checkC12(c *Ctx) (int, error) {
	c.mech = true
	c.ev.Level = "model_checking"
	c.ev.Assumptions = []string{"histories h1;Reset;h2 exhaustive up to the stated length (TLC, WriterModel); a destination failure inside h1 is placed at call 1..3; payload bytes are seeded samples (h2 uses different data from h1)"}
	if err := c.writerModels(); err != nil {
		return 0, err
	}
	maxLen, per := 5, 5
	if c.Tier == "thorough" {
		maxLen, per = 6, 8
	}
	cfg := genCfg(`"flate"`, []int{1, 2}, maxLen, 2, false, []string{"Write", "Flush", "Close", "Reset"}, "")
	behs, err := c.Behaviours("WriterModel", "GEN_C12.cfg", map[string]string{"GEN_C12.cfg": cfg}, 10*time.Minute)
	if err != nil {
		return 0, err
	}
	rng := rand.New(rand.NewSource(c.Seed))
	cases, err := c.histCases("C12", behs, rng, allWSettings, per, nil, func(h []hop) bool {
		r := -1
		for i, o := range h {
			if o.Op == "R" {
				r = i
			}
		}
		// one or two Resets (also directly after each other), anything before the last one, a history ending in Close after it
		return r >= 0 && r < len(h)-1 && h[len(h)-1].Op == "C"
	})
	if err != nil {
		return 0, err
	}
	for i, cs := range cases {
		r := 0
		for j, o := range cs.Ops {
			if o.Op == "R" {
				r = j
			}
		}
		cs.Shadow = append([]Op{}, cs.Ops[r+1:]...)
		cs.Cmp = "C12"
		if i%3 == 2 && r > 0 {
			cs.FailAt, cs.FailEp = 1+rng.Intn(3), 0
		}
		// the data must cover the larger epoch
		mx, cur := 0, 0
		for _, o := range cs.Ops {
			if o.Op == "R" {
				cur = 0
			}
			if o.Op == "W" {
				cur += o.N
				if cur > mx {
					mx = cur
				}
			}
		}
		cs.Data.Len = mx
		c.ev.nontrivial(histString(cs.Ops) + "|" + cs.Tag + fmt.Sprint(cs.FailAt))
	}
	cases = append(cases, soakCases(c, rng, "C12")...)
	// a first stream long enough for every internal buffer to have grown or wrapped (token blocks
	// filled, windows slid), then Reset and another long stream, compared with a fresh Writer's
	nGrown := 0
	for si, set := range accelSettings {
		for ci, cl := range []string{"uniform", "nearuniform", "tokendense", "text", "deepclust"} {
			n1 := pick(rng, []int{70000, 140000, 300000})
			n2 := pick(rng, []int{70000, 140000, 200000})
			cs := &WCase{ID: fmt.Sprintf("C12-grown-%d-%d", si, ci), Set: set, Tag: settingTag(set) + "|grown-" + cl, Cmp: "C12",
				Data: DataSpec{Class: cl, Seed: rng.Int63n(1 << 30), Len: maxInt(n1, n2)},
				Ops:  []Op{{Op: "W", N: n1}, {Op: []string{"C", "F"}[ci%2]}, {Op: "R"}, {Op: "W", N: n2}, {Op: "C"}}}
			cs.Shadow = []Op{{Op: "W", N: n2}, {Op: "C"}}
			cases = append(cases, cs)
			nGrown++
			c.ev.nontrivial(cs.Tag)
		}
	}
	// the same with a first stream of another kind of data than the second (what the compressor learned
	// about the first stream's data - statistics, skip heuristics - must not reach the second), the first
	// stream ending at and up to 16 KiB behind a multiple of 32 KiB
	for si, set := range accelSettings {
		for ci, pr := range [][2]string{{"uniform", "period"}, {"uniform", "text"}, {"zeros", "uniform"}, {"text", "nearuniform"}, {"uniform", "runs"}} {
			n1 := 32768*(1+rng.Intn(3)) + pick(rng, []int{0, 1, 5000, 6464, 16000})
			n2 := pick(rng, []int{20000, 70000, 140000})
			cs := &WCase{ID: fmt.Sprintf("C12-cross-%d-%d", si, ci), Set: set, Tag: settingTag(set) + "|cross-" + pr[0] + "-" + pr[1], Cmp: "C12",
				Data: DataSpec{Class: pr[1], Pre: pr[0], Seed: rng.Int63n(1 << 30), Len: maxInt(n1, n2), Period: 1 + rng.Intn(64)},
				Ops:  []Op{{Op: "W", N: n1}, {Op: []string{"C", "F"}[ci%2]}, {Op: "R"}, {Op: "W", N: n2}, {Op: "C"}}}
			cs.Shadow = []Op{{Op: "W", N: n2}, {Op: "C"}}
			cases = append(cases, cs)
			nGrown++
			c.ev.nontrivial(cs.Tag)
		}
	}
	c.ev.Extra["reset_after_long_first_stream_cases"] = nGrown
	c.ev.Rule = fmt.Sprintf("every history of %d calls over {Write(small|large), Flush, Close, Reset} with one or two Resets (also back to back) the last of which is followed by a history ending in Close (TLC, WriterModel), on %d of %d settings; one third with a destination failure inside h1; the bytes after Reset are compared with a fresh Writer's; distinct by (history, setting, failure)", maxLen, per, len(allWSettings))
	c.ev.Exhaustive = true
	for _, cs := range spread(cases) {
		c.ev.sample(map[string]interface{}{"history": histString(cs.Ops), "setting": cs.Tag, "failat": cs.FailAt})
	}
	return c.writerRun("c12", c.spreadArch(cases, false), true)
}

// soakCases: a Writer that has been through many streams ending in a destination failure, each
// followed by Reset (a pooled Writer on flaky connections), then writes one healthy stream, which
// is compared with a fresh Writer's.
func soakCases(c *Ctx, rng *rand.Rand, prefix string) []*WCase {
	cycles, per := 1500, 1
	if c.Tier == "thorough" {
		cycles, per = 6000, 3
	}
	var cases []*WCase
	for si, set := range accelSettings {
		for v := 0; v < 8*per; v++ {
			n := pick(rng, []int{300, 9000, capOf(set) + 3000})
			cs := &WCase{ID: fmt.Sprintf("%s-soak-%d-%d", prefix, si, v), Set: set, Tag: settingTag(set) + fmt.Sprintf("|soak%d/%d", v%4, 1+v/4%2),
				Soak: cycles, SoakPat: v % 4, SoakAt: 1 + v/4%2, Cmp: "soak",
				Data: DataSpec{Class: []string{"text", "mixed", "digits"}[v%3], Seed: rng.Int63n(1 << 30), Len: n},
				Ops:  []Op{{Op: "W", N: n}, {Op: "F"}, {Op: "C"}}}
			cs.Shadow = cs.Ops
			cases = append(cases, cs)
			c.ev.nontrivial(cs.Tag)
		}
	}
	return cases
}

// bulkCases: see execBulk.
func bulkCases(c *Ctx, rng *rand.Rand, prefix string) []*WCase {
	per, reps := 12000, 1
	if prefix != "C16" {
		per = 3000 // (the full count runs in C16, whose statement names Close; here a sample)
	}
	if c.Tier == "thorough" {
		per, reps = 12000, 12 // (more cases, not longer ones: a case has a time limit)
	}
	var cases []*WCase
	for si, set := range accelSettings {
		for ci, cl := range []string{"uniform", "nearuniform"} {
			for rep := 0; rep < reps; rep++ {
				cs := &WCase{ID: fmt.Sprintf("%s-bulk-%d-%d-%d", prefix, si, ci, rep), Set: set, Tag: settingTag(set) + "|bulk-" + cl, Bulk: per,
					Data: DataSpec{Class: cl, Seed: rng.Int63n(1 << 30), Len: 1}}
				cases = append(cases, cs)
				c.ev.nontrivial(fmt.Sprintf("%s|%d", cs.Tag, rep))
			}
		}
	}
	return cases
}
