package main

import (
	"bufio"
	"encoding/json"
	"fmt"
	"os"
	"runtime/debug"
	"sync"
	"time"

	"github.com/intel/fastgo"
)

// caseHeader is what every case has in common.
type caseHeader struct {
	ID     string `json:"id"`
	Family string `json:"family"`
	Arch   int    `json:"arch"`
}

// runWorker executes the cases of one shard in this process (whose
// acceleration level was chosen by FASTGO_VERIF_ARCHLEVEL at start-up) and
// writes their traces.  Exit status 3 = a case hung (named in the progress file).
func runWorker(in, out, prog string, caseTimeout time.Duration) int {
	debug.SetPanicOnFault(true)
	f, err := os.Open(in)
	if err != nil {
		fmt.Fprintln(os.Stderr, "worker:", err)
		return 2
	}
	defer f.Close()
	of, err := os.Create(out)
	if err != nil {
		fmt.Fprintln(os.Stderr, "worker:", err)
		return 2
	}
	defer of.Close()
	pf, err := os.Create(prog)
	if err != nil {
		fmt.Fprintln(os.Stderr, "worker:", err)
		return 2
	}
	defer pf.Close()
	w := bufio.NewWriterSize(of, 1<<20)
	var mu sync.Mutex
	enc := json.NewEncoder(w)
	var caseEvents, caseNo int
	var caseID string
	emit := func(v interface{}) {
		mu.Lock()
		defer mu.Unlock()
		if caseEvents++; caseEvents > maxCaseEvents {
			// a case that floods the trace (e.g. a Reader that keeps asking a failed source without
			// ever returning) is a case that does not terminate
			w.Flush()
			fmt.Fprintf(os.Stderr, "runaway: more than %d events in one case\n", maxCaseEvents)
			fmt.Fprintf(pf, "HANG %d %s\n", caseNo, caseID)
			os.Exit(3)
		}
		if err := enc.Encode(v); err != nil {
			fmt.Fprintln(os.Stderr, "worker: encode:", err)
		}
	}
	arch := fastgo.VerifArchLevel()
	sc := bufio.NewScanner(f)
	sc.Buffer(make([]byte, 1<<20), 1<<28)
	n := 0
	for sc.Scan() {
		line := append([]byte{}, sc.Bytes()...)
		var h caseHeader
		if err := json.Unmarshal(line, &h); err != nil {
			fmt.Fprintln(os.Stderr, "worker: bad case:", err)
			return 2
		}
		mu.Lock()
		caseEvents, caseNo, caseID = 0, n, h.ID
		mu.Unlock()
		fmt.Fprintf(pf, "START %d %s\n", n, h.ID)
		done := make(chan struct{})
		go func() {
			defer close(done)
			execCase(h, line, arch, emit)
		}()
		select {
		case <-done:
		case <-time.After(caseTimeout):
			mu.Lock()
			w.Flush()
			fmt.Fprintf(pf, "HANG %d %s\n", n, h.ID)
			os.Exit(3)
		}
		mu.Lock()
		w.Flush()
		mu.Unlock()
		fmt.Fprintf(pf, "DONE %d %s\n", n, h.ID)
		n++
	}
	return 0
}

func execCase(h caseHeader, raw []byte, arch int, emit func(interface{})) {
	switch h.Family {
	case "writer":
		var c WCase
		if err := json.Unmarshal(raw, &c); err != nil {
			fmt.Fprintln(os.Stderr, "worker: bad writer case:", err)
			os.Exit(2)
		}
		execWriterCase(&c, arch, emit)
	default:
		if fn, ok := families[h.Family]; ok {
			fn(raw, arch, emit)
			return
		}
		fmt.Fprintln(os.Stderr, "worker: unknown family", h.Family)
		os.Exit(2)
	}
}

// families registers the executors of the other case families.
var families = map[string]func(raw []byte, arch int, emit func(interface{})){}

// maxCaseEvents bounds the events of one case (the recorders merge uniform successes, so that
// the longest legitimate case stays far below this).
const maxCaseEvents = 300000
