package main

import (
	"encoding/hex"
	"fmt"
	"hash/adler32"
	"hash/crc32"
	"hash/fnv"
	"math/rand"

	"verif/harness/synth"
)

// collideStreams: valid streams of two consecutive dynamic blocks whose codes differ but
// whose code-length lists have the same 32-bit digest, for each digest and each way of
// laying the lengths out that a cache "keyed by a checksum of the code" would plausibly
// use.  Both literal/length codes are permutations of one complete code over all 286
// symbols (226 of 8 bits, 60 of 9), the distance code is the same in both blocks; the pair
// is found by a birthday search over seeded shuffles (about 1e5 shuffles per digest).  A
// decoder that takes digest equality for identity of the code decodes the second block
// with the first block's tables.  This family is white-box: it was written after reading
// the report of the seeded change C02-b61 and it only sees caches keyed by one of the
// digests and layouts below.
func collideStreams(rng *rand.Rand, perKind int) []namedStream {
	digests := []struct {
		name string
		f    func([]byte) uint32
	}{
		{"crc32ieee", crc32.ChecksumIEEE},
		{"crc32c", func(b []byte) uint32 { return crc32.Checksum(b, crc32.MakeTable(crc32.Castagnoli)) }},
		{"adler32", adler32.Checksum},
		{"fnv1a", func(b []byte) uint32 { h := fnv.New32a(); h.Write(b); return h.Sum32() }},
		{"fnv1", func(b []byte) uint32 { h := fnv.New32(); h.Write(b); return h.Sum32() }},
	}
	layouts := []struct {
		name   string
		nl, nd int
	}{{"286+30", 286, 30}, {"288+32", 288, 32}}
	dist := make([]uint8, 30)
	for i := range dist {
		dist[i] = 5
	}
	dist[0], dist[1] = 4, 4
	var out []namedStream
	for _, dg := range digests {
		for _, lay := range layouts {
			for k := 0; k < 2*perKind; k++ {
				a, b := collidingCodes(rng, dg.f, lay.nl, lay.nd, dist)
				if a == nil {
					continue
				}
				var w synth.BitWriter
				outLen := 0
				for bi, lit := range [][]uint8{a, b} {
					sw, err := synth.DynamicHeader(&w, bi == 1 && k%2 == 0, lit, dist, synth.DynOptions{UseRepeat: bi == 0 || k%4 < 2})
					if err != nil {
						return out
					}
					for i := 0; i < 300; i++ {
						if outLen > 40 && rng.Intn(5) == 0 {
							l, d := 3+rng.Intn(256), 1+rng.Intn(minInt(outLen, 32768))
							sw.Tok(synth.Match(l, d))
							outLen += l
						} else {
							sw.Tok(synth.Lit(byte(rng.Intn(256))))
							outLen++
						}
					}
					sw.EOB()
				}
				if k%2 == 1 {
					// neither block is the last one (a decoder may treat a short final block differently)
					synth.Fixed(&w, true, []synth.Tok{synth.Lit('x'), synth.Match(3+rng.Intn(200), 1+rng.Intn(outLen))})
				}
				out = append(out, namedStream{name: fmt.Sprintf("collide-%s-%s-%d", dg.name, lay.name, k), kind: "flate", s: RStream{Hex: hex.EncodeToString(w.Bytes())}})
			}
		}
	}
	return out
}

// collidingCodes finds two different permutations of one complete literal/length code with
// the same digest of lit (padded to nl) followed by dist (padded to nd).
func collidingCodes(rng *rand.Rand, f func([]byte) uint32, nl, nd int, dist []uint8) ([]uint8, []uint8) {
	base := make([]uint8, 286)
	for i := range base {
		base[i] = 8
		if i >= 226 {
			base[i] = 9
		}
	}
	buf := make([]byte, nl+nd)
	copy(buf[nl:], dist)
	seen := make(map[uint32]string, 1<<18)
	l := append([]uint8{}, base...)
	rng.Shuffle(len(l), func(i, j int) { l[i], l[j] = l[j], l[i] })
	for i := 0; i < 500000; i++ {
		for k := 0; k < 3; k++ {
			x, y := rng.Intn(len(l)), rng.Intn(len(l))
			l[x], l[y] = l[y], l[x]
		}
		copy(buf, l)
		h := f(buf)
		if o, ok := seen[h]; ok && o != string(l) {
			return []uint8(o), append([]uint8{}, l...)
		}
		seen[h] = string(l)
	}
	return nil, nil
}
