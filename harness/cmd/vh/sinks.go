package main

import (
	"errors"
	"fmt"
)

// injectedError is the class of errors the harness injects; every injection
// uses a fresh value so that identity (errors.Is) can be checked.
type injectedError struct{ id int }

func (e *injectedError) Error() string { return fmt.Sprintf("verif: injected failure #%d", e.id) }

var injectCounter int

func newInjected() error { injectCounter++; return &injectedError{id: injectCounter} }

// Sink is the destination of a Writer under test: it records what it is
// given and fails from its FailAt-th call on.
type Sink struct {
	Buf     []byte
	Calls   int
	FailAt  int // 0 = never
	Partial bool
	Failed  bool
	After   int // calls made after the first failure
	Err     error
}

func (s *Sink) Write(p []byte) (int, error) {
	s.Calls++
	if s.Failed {
		s.After++
		return 0, s.Err
	}
	if s.FailAt > 0 && s.Calls >= s.FailAt {
		s.Failed = true
		s.Err = newInjected()
		if s.Partial && len(p) > 1 {
			s.Buf = append(s.Buf, p[:len(p)/2]...)
			return len(p) / 2, s.Err
		}
		return 0, s.Err
	}
	s.Buf = append(s.Buf, p...)
	return len(p), nil
}

// errClassW classifies an error returned by a Writer method.
func errClassW(err error, s *Sink) string {
	if err == nil {
		return "nil"
	}
	if s != nil && s.Err != nil && errors.Is(err, s.Err) {
		return "dst"
	}
	var ie *injectedError
	if errors.As(err, &ie) {
		return "stale-dst" // an injected error of an earlier destination
	}
	return "other"
}
