package main

import (
	"bufio"
	"errors"
	"fmt"
	"io"
)

// injectedError is the class of errors the harness injects; every injection
// uses a fresh value so that identity (errors.Is) can be checked.
//
// An injected error may wrap one of the sentinel values the library compares
// its source's errors with (a transport error that wraps io.EOF is not io.EOF:
// the stream did not end, the transport failed), or claim to be one through an
// Is method; the library must hand back the very value it was given.
type injectedError struct {
	id      int
	wrap    error
	is      error
	timeout bool // the error says it is a timeout (net.Error style): still an error, and still sticky
}

func (e *injectedError) Timeout() bool   { return e.timeout }
func (e *injectedError) Temporary() bool { return e.timeout }

func (e *injectedError) Error() string {
	if e.wrap != nil {
		return fmt.Sprintf("verif: injected failure #%d: %v", e.id, e.wrap)
	}
	return fmt.Sprintf("verif: injected failure #%d", e.id)
}
func (e *injectedError) Unwrap() error { return e.wrap }
func (e *injectedError) Is(target error) bool {
	return e.is != nil && target == e.is
}

var injectCounter int

func newInjected() error { injectCounter++; return &injectedError{id: injectCounter} }

// errKinds: the kinds of injected source errors (RSource.ErrKind).
var errKinds = []string{"", "wrapEOF", "wrapUxEOF", "wrapBufFull", "isEOF", "timeout"}

func newInjectedKind(kind string) error {
	injectCounter++
	e := &injectedError{id: injectCounter}
	switch kind {
	case "wrapEOF":
		e.wrap = io.EOF
	case "wrapUxEOF":
		e.wrap = io.ErrUnexpectedEOF
	case "wrapBufFull":
		e.wrap = bufio.ErrBufferFull
	case "isEOF":
		e.is = io.EOF
	case "timeout":
		e.timeout = true
	}
	return e
}

// Sink is the destination of a Writer under test: it records what it is
// given and fails from its FailAt-th call on.
type Sink struct {
	Buf     []byte
	Calls   int
	FailAt  int // 0 = never
	Partial bool
	Failed  bool
	After   int // calls made after the first failure
	Err     error
	ErrKind string // errKinds
	Full    bool   // the failing call takes ALL its bytes and returns the error with the full count (io.Writer allows that)
	Base    int    // where the current stream starts in Buf (Reset onto the same destination keeps what is there)
}

// Cur is what the current stream has put into the destination.
func (s *Sink) Cur() []byte { return s.Buf[s.Base:] }

func (s *Sink) Write(p []byte) (int, error) {
	s.Calls++
	if s.Failed {
		s.After++
		return 0, s.Err
	}
	if s.FailAt > 0 && s.Calls >= s.FailAt {
		s.Failed = true
		s.Err = newInjectedKind(s.ErrKind)
		if s.Full {
			s.Buf = append(s.Buf, p...)
			return len(p), s.Err
		}
		if s.Partial && len(p) > 1 {
			s.Buf = append(s.Buf, p[:len(p)/2]...)
			return len(p) / 2, s.Err
		}
		return 0, s.Err
	}
	s.Buf = append(s.Buf, p...)
	return len(p), nil
}

// errClassW classifies an error returned by a Writer method.
func errClassW(err error, s *Sink) string {
	if err == nil {
		return "nil"
	}
	if s != nil && s.Err != nil && err == s.Err {
		return "dst"
	}
	if s != nil && s.Err != nil && errors.Is(err, s.Err) {
		return "other" // the destination's error wrapped in something else: not "that error"
	}
	var ie *injectedError
	if errors.As(err, &ie) {
		return "stale-dst" // an injected error of an earlier destination
	}
	return "other"
}
