package main

import (
	"bytes"
	stdflate "compress/flate"
	stdgzip "compress/gzip"
	stdzlib "compress/zlib"
	"encoding/binary"
	"errors"
	"hash/adler32"
	"hash/crc32"
	"io"
	"time"

	fgflate "github.com/intel/fastgo/compress/flate"
	fggzip "github.com/intel/fastgo/compress/gzip"
	fgzlib "github.com/intel/fastgo/compress/zlib"

	"verif/harness/refinflate"
)

// Proj is what the reference inflater (plus the container framing rules of
// RFC 1950 / RFC 1952, re-implemented here) makes of the bytes emitted so far.
type Proj struct {
	St    string `json:"st"`    // "more" | "done" | "corrupt"
	Len   int    `json:"len"`   // bytes decoded
	Ok    bool   `json:"ok"`    // decoded bytes are a prefix of the data offered
	Maxd  int    `json:"maxd"`  // largest back-reference distance
	Tail  string `json:"tail"`  // "empty" | "mid" | "sync" | "final"
	Trail int    `json:"trail"` // bytes after the end of the stream (after the trailer for containers)
	Hdr   bool   `json:"hdr"`   // container header (so far) is well formed and carries the expected fields
	Trl   bool   `json:"trl"`   // container trailer present and equal to the checksum/length of the data
}

// Dec is what a library decoder (compress/* or fastgo's own) makes of them.
type Dec struct {
	St  string `json:"st"`
	Len int    `json:"len"`
	Ok  bool   `json:"ok"`
	Hdr bool   `json:"hdr"` // gzip: the header fields read back equal the ones written (true for other kinds)
}

// GzHeader is the part of a gzip header a user can set.
type GzHeader struct {
	Name    string `json:"name"`
	Comment string `json:"comment"`
	Extra   []byte `json:"extra"`
	ModTime int64  `json:"mtime"`
	OS      byte   `json:"os"`
}

func isPrefix(out, want []byte) bool {
	return len(out) <= len(want) && bytes.Equal(out, want[:len(out)])
}

// parseGzipHeader parses an RFC 1952 member header. n is its length when
// complete; valid is false as soon as a byte contradicts the format.
func parseGzipHeader(b []byte) (n int, complete, valid bool, h GzHeader, latin1OK bool) {
	latin1OK = true
	if len(b) >= 1 && b[0] != 0x1f || len(b) >= 2 && b[1] != 0x8b || len(b) >= 3 && b[2] != 8 {
		return 0, false, false, h, true
	}
	if len(b) < 10 {
		return 0, false, true, h, true
	}
	flg := b[3] // reserved FLG bits are ignored, as compress/gzip does: the payload and its checksum are unaffected
	h.ModTime = int64(binary.LittleEndian.Uint32(b[4:8]))
	h.OS = b[9]
	p := 10
	if flg&4 != 0 {
		if len(b) < p+2 {
			return 0, false, true, h, true
		}
		xl := int(binary.LittleEndian.Uint16(b[p:]))
		p += 2
		if len(b) < p+xl {
			return 0, false, true, h, true
		}
		h.Extra = append([]byte{}, b[p:p+xl]...)
		p += xl
	}
	readStr := func() (string, bool) {
		for q := p; q < len(b); q++ {
			if b[q] == 0 {
				// Latin-1 -> UTF-8
				rs := make([]rune, 0, q-p)
				for _, c := range b[p:q] {
					rs = append(rs, rune(c))
				}
				p = q + 1
				return string(rs), true
			}
		}
		return "", false
	}
	if flg&8 != 0 {
		s, ok := readStr()
		if !ok {
			return 0, false, true, h, true
		}
		h.Name = s
	}
	if flg&16 != 0 {
		s, ok := readStr()
		if !ok {
			return 0, false, true, h, true
		}
		h.Comment = s
	}
	if flg&2 != 0 {
		if len(b) < p+2 {
			return 0, false, true, h, true
		}
		want := uint16(crc32.ChecksumIEEE(b[:p]))
		if binary.LittleEndian.Uint16(b[p:]) != want {
			return 0, false, false, h, true
		}
		p += 2
	}
	return p, true, true, h, true
}

func sameHeader(a GzHeader, want *GzHeader) bool {
	if want == nil {
		return a.Name == "" && a.Comment == "" && len(a.Extra) == 0 && a.ModTime == 0
	}
	return a.Name == want.Name && a.Comment == want.Comment && bytes.Equal(a.Extra, want.Extra) &&
		a.ModTime == want.ModTime && a.OS == want.OS
}

// projectRef computes the reference projection of the emitted bytes.
func projectRef(kind string, emitted, want, dict []byte, hdr *GzHeader) Proj {
	p := Proj{St: "more", Ok: true, Tail: "empty", Hdr: true}
	body := emitted
	trailerLen := 0
	switch kind {
	case "gzip":
		n, complete, valid, h, _ := parseGzipHeader(emitted)
		if !valid {
			return Proj{St: "corrupt", Tail: "mid"}
		}
		if !complete {
			if len(emitted) > 0 {
				p.Tail = "mid"
			}
			return p
		}
		p.Hdr = sameHeader(h, hdr)
		body = emitted[n:]
		trailerLen = 8
	case "zlib":
		if len(emitted) < 2 {
			if len(emitted) > 0 {
				p.Tail = "mid"
			}
			return p
		}
		cmf, flg := emitted[0], emitted[1]
		if cmf&0x0f != 8 || cmf>>4 > 7 || (uint(cmf)<<8|uint(flg))%31 != 0 {
			return Proj{St: "corrupt", Tail: "mid"}
		}
		n := 2
		if flg&0x20 != 0 {
			if len(emitted) < 6 {
				p.Tail = "mid"
				return p
			}
			p.Hdr = dict != nil && binary.BigEndian.Uint32(emitted[2:6]) == adler32.Checksum(dict)
			n = 6
		} else {
			p.Hdr = dict == nil
		}
		body = emitted[n:]
		trailerLen = 4
	}
	r := refinflate.Inflate(body, refinflate.Options{Dict: dict, MaxOut: len(want) + 1<<20})
	p.St, p.Len, p.Maxd, p.Tail = r.State, len(r.Out), r.MaxDist, r.Tail
	p.Ok = isPrefix(r.Out, want)
	if kind != "flate" && len(body) == 0 {
		p.Tail = "mid" // a header has been emitted, the DEFLATE part is still empty
	}
	if r.State != "done" {
		return p
	}
	p.Trail = r.Trail
	if trailerLen == 0 {
		return p
	}
	tr := body[r.EndByte:]
	if len(tr) < trailerLen {
		p.St, p.Tail, p.Trail = "more", "mid", 0
		return p
	}
	p.Trail = len(tr) - trailerLen
	if p.Ok {
		data := want[:p.Len]
		if kind == "gzip" {
			p.Trl = binary.LittleEndian.Uint32(tr[0:4]) == crc32.ChecksumIEEE(data) &&
				binary.LittleEndian.Uint32(tr[4:8]) == uint32(len(data))
		} else {
			p.Trl = binary.BigEndian.Uint32(tr[0:4]) == adler32.Checksum(data)
		}
	}
	return p
}

func classifyReadErr(err error) string {
	switch {
	case err == nil || err == io.EOF:
		return "done"
	case errors.Is(err, io.ErrUnexpectedEOF):
		return "more"
	default:
		return "corrupt"
	}
}

// readAllGuard reads r to the end with protection against panics and hangs.
func readAllGuard(r io.Reader, limit int) (out []byte, err error, panicked string) {
	type res struct {
		out []byte
		err error
		pan string
	}
	ch := make(chan res, 1)
	go func() {
		var rr res
		defer func() {
			if x := recover(); x != nil {
				rr.pan = panicString(x)
			}
			ch <- rr
		}()
		var buf bytes.Buffer
		_, rr.err = io.Copy(&buf, io.LimitReader(r, int64(limit)))
		rr.out = buf.Bytes()
	}()
	select {
	case x := <-ch:
		return x.out, x.err, x.pan
	case <-time.After(60 * time.Second):
		return nil, errors.New("hang"), "hang"
	}
}

// projectLib decodes the emitted bytes with a library decoder.
func projectLib(impl, kind string, emitted, want, dict []byte, hdr *GzHeader) Dec {
	src := bytes.NewReader(emitted)
	var r io.Reader
	var err error
	var got *GzHeader
	func() {
		defer func() {
			if x := recover(); x != nil {
				err = errors.New("panic: " + panicString(x))
			}
		}()
		switch {
		case impl == "std" && kind == "flate":
			if dict != nil {
				r = stdflate.NewReaderDict(src, dict)
			} else {
				r = stdflate.NewReader(src)
			}
		case impl == "std" && kind == "gzip":
			var zr *stdgzip.Reader
			zr, err = stdgzip.NewReader(src)
			if err == nil {
				r = zr
				mt := int64(0)
				if !zr.ModTime.IsZero() {
					mt = zr.ModTime.Unix()
				}
				got = &GzHeader{Name: zr.Name, Comment: zr.Comment, Extra: zr.Extra, ModTime: mt, OS: zr.OS}
			}
		case impl == "std" && kind == "zlib":
			if dict != nil {
				r, err = stdzlib.NewReaderDict(src, dict)
			} else {
				r, err = stdzlib.NewReader(src)
			}
		case impl == "fastgo" && kind == "flate":
			if dict != nil {
				r = fgflate.NewReaderDict(src, dict)
			} else {
				r = fgflate.NewReader(src)
			}
		case impl == "fastgo" && kind == "gzip":
			var zr *fggzip.Reader
			zr, err = fggzip.NewReader(src)
			if err == nil {
				r = zr
				mt := int64(0)
				if !zr.ModTime.IsZero() {
					mt = zr.ModTime.Unix()
				}
				got = &GzHeader{Name: zr.Name, Comment: zr.Comment, Extra: zr.Extra, ModTime: mt, OS: zr.OS}
			}
		case impl == "fastgo" && kind == "zlib":
			if dict != nil {
				r, err = fgzlib.NewReaderDict(src, dict)
			} else {
				r, err = fgzlib.NewReader(src)
			}
		}
	}()
	if err != nil {
		if err == io.EOF {
			err = io.ErrUnexpectedEOF // a container header cut short: more input is needed
		}
		return Dec{St: classifyReadErr(err), Len: 0, Ok: true, Hdr: true}
	}
	out, rerr, pan := readAllGuard(r, len(want)+1<<20)
	d := Dec{St: classifyReadErr(rerr), Len: len(out), Ok: isPrefix(out, want), Hdr: true}
	if got != nil {
		d.Hdr = sameHeader(*got, hdr)
	}
	if pan != "" {
		d.St, d.Ok = "corrupt", false
	}
	return d
}
