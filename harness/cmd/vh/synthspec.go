package main

import "verif/harness/synth"

// SynthSpec is a descriptor of a synthesised DEFLATE stream: block structure,
// code shapes, token classes and at most one injected fault; the seed decides
// the concrete symbols (see synth.Desc).
type SynthSpec struct {
	synth.Desc
}

// Build returns the stream bytes.
func (s *SynthSpec) Build() ([]byte, error) {
	b, _, err := s.Desc.Build()
	return b, err
}
