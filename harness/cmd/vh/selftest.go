package main

import (
	"bufio"
	"bytes"
	"context"
	"encoding/json"
	"fmt"
	"math/rand"
	"os"
	"os/exec"
	"path/filepath"
	"strings"
	"time"

	"verif/harness/tlc"
)

func init() { checks["selftest"] = selfTest }

// selfTest demonstrates that the specifications are bound to the code and
// not vacuous (DESIGN 4.6): (a) corrupting one logged field of an accepted
// trace must be rejected at exactly that line; (b) every action of the
// model-checking configurations is taken (-coverage 1).  It prints its own
// report and uses exit 2 for failures: it is a test of the machinery, not of
// a property.
func selfTest(c *Ctx) (int, error) {
	c.ev.Level = "other"
	c.ev.Explanation = "self-test of the verification machinery: trace corruption must be rejected, model actions must be covered"
	rng := rand.New(rand.NewSource(c.Seed))
	// ---- (a) writer trace
	var wc []Case
	for i, set := range allWSettings[:8] {
		cs := &WCase{ID: fmt.Sprintf("ST-w%d", i), Family: "writer", Set: set, Arch: c.Host, Data: randData(rng, 3000),
			Ops: []Op{{Op: "W", N: 1000}, {Op: "F"}, {Op: "W", N: 2000}, {Op: "C"}, {Op: "C"}}}
		cs.Set.Impl = "fastgo"
		wc = append(wc, cs)
	}
	wtrace, err := c.Execute("st-w", wc, false)
	if err != nil {
		return 0, err
	}
	if err := c.corruptAndExpect(wtrace, "WriterTrace", "TV_Writer.cfg", []fieldEdit{
		{ev: "Write", field: "ret", fn: func(v interface{}) interface{} { return v.(float64) - 1 }, clause: "C16.write_count"},
		{ev: "Flush", field: "err", fn: func(v interface{}) interface{} { return "other" }, clause: "C16.nil_when_open"},
		{ev: "Flush", sub: "ref", field: "tail", fn: func(v interface{}) interface{} { return "mid" }, clause: "C10.flush_decodes"},
		{ev: "Close", sub: "ref", field: "len", fn: func(v interface{}) interface{} { return v.(float64) + 1 }, clause: "C01.close_complete"},
		{ev: "Close", sub: "ref", field: "maxd", fn: func(v interface{}) interface{} { return 40000.0 }, clause: "C19.window"},
		{ev: "Close", field: "panic", fn: func(v interface{}) interface{} { return "boom" }, clause: "C16.nopanic"},
	}); err != nil {
		return 0, err
	}
	// ---- (a) mechanism trace: hook events of the compressor against DynMechTrace
	var mc []Case
	for i, set := range accelSettings {
		if set.Level == -2 {
			continue
		}
		cs := &WCase{ID: fmt.Sprintf("ST-m%d", i), Family: "writer", Set: set, Arch: c.Host, Mech: true, Data: randData(rng, 200000),
			Ops: []Op{{Op: "W", N: 70000}, {Op: "F"}, {Op: "W", N: 130000}, {Op: "C"}}}
		cs.Set.Impl = "fastgo"
		mc = append(mc, cs)
	}
	mtrace, err := c.Execute("st-m", mc, false)
	if err != nil {
		return 0, err
	}
	if err := c.corruptAndExpect(mtrace, "DynMechTrace", "TV_DynMech.cfg", []fieldEdit{
		{ev: "Mech", when: func(m map[string]interface{}) bool { return m["m"] == "acc" }, field: "d", fn: func(v interface{}) interface{} { return v.(float64) + 1 }, clause: "acc_moves_only_end"},
		{ev: "Mech", when: func(m map[string]interface{}) bool { return m["m"] == "slide" }, field: "b", fn: func(v interface{}) interface{} { return v.(float64) - 1 }, clause: "slide_keeps_one_window"},
		{ev: "Mech", when: func(m map[string]interface{}) bool { return m["m"] == "out" }, field: "a", fn: func(v interface{}) interface{} { return 9000.0 }, clause: "out_piece_size"},
		{ev: "Mech", when: func(m map[string]interface{}) bool { return m["m"] == "blk" }, field: "b", fn: func(v interface{}) interface{} { return v.(float64) + 1 }, clause: "blk_has_the_pending_tokens"},
	}); err != nil {
		return 0, err
	}
	// ---- (a) reader trace
	var rc []Case
	for i := 0; i < 6; i++ {
		st := encStream("std", "flate", 6, randData(rng, 5000), []int{2000})
		rc = append(rc, &RCase{ID: fmt.Sprintf("ST-r%d", i), Family: "reader", Impl: "fastgo", Kind: "flate", Arch: c.Host,
			Segs: []RSeg{{Stream: st, Src: srcWith(RSource{Kind: "bufio", BufSize: 4096}, []int{100}), Reads: []int{700}, Multi: true}}})
	}
	for _, x := range rc {
		x.(*RCase).Mech = true
	}
	rtrace, err := c.Execute("st-r", rc, false)
	if err != nil {
		return 0, err
	}
	if err := c.corruptAndExpect(rtrace, "ReaderMechTrace", "TV_ReaderMech.cfg", []fieldEdit{
		{ev: "RMech", when: func(m map[string]interface{}) bool { return m["m"] == "disc" }, field: "a", fn: func(v interface{}) interface{} { return v.(float64) + 1 }, clause: "discard_arithmetic"},
		{ev: "RMech", when: func(m map[string]interface{}) bool { return m["m"] == "wait" }, field: "c", fn: func(v interface{}) interface{} { return 1.0 }, clause: "no_wait_at_end_of_stream"},
	}); err != nil {
		return 0, err
	}
	if err := c.corruptAndExpect(rtrace, "ReaderTrace", "TV_Reader.cfg", []fieldEdit{
		{ev: "Read", field: "ok", fn: func(v interface{}) interface{} { return false }, clause: "C03.real_bytes"},
		{ev: "End", field: "rest", fn: func(v interface{}) interface{} { return v.(float64) + 1 }, clause: "C05.exact_end"},
		{ev: "Read", field: "err", when: func(m map[string]interface{}) bool { return m["err"] == "eof" }, fn: func(v interface{}) interface{} { return "uxeof" }, clause: "C02.same_as_std"},
	}); err != nil {
		return 0, err
	}
	// ---- (b) coverage of the model-checking configurations
	for _, mc := range [][2]string{{"WriterModel", "MC_WriterModel.cfg"}, {"WriterMech", "MC_WriterMech_dyn.cfg"}, {"WriterMech", "MC_WriterMech_huff.cfg"}, {"MCR", "MC_ReaderMech.cfg"}} {
		res, err := c.TLC(tlc.Run{Module: mc[0], Cfg: mc[1], Coverage: true, Timeout: 10 * time.Minute})
		if err != nil {
			return 0, err
		}
		var zero []string
		for _, z := range res.ZeroCov {
			// an action that is never taken is listed with count 0
			if !strings.Contains(z, "Init") {
				zero = append(zero, z)
			}
		}
		if len(res.ActionCov) == 0 {
			return 0, fmt.Errorf("no coverage information from %s/%s", mc[0], mc[1])
		}
		if len(zero) > 0 {
			return 0, fmt.Errorf("%s/%s: actions never taken (vacuous parts of the model): %v", mc[0], mc[1], zero)
		}
		c.logf("coverage %s/%s: %d actions, all taken", mc[0], mc[1], len(res.ActionCov))
	}
	// ---- (c) the refinement check is not vacuous: each deviation the pinned code had is rejected
	for dev, v := range map[string]string{"DevNoClosedState": "dyn", "DevErrNotStored": "dyn", "DevResetKeepsTokens": "dyn", "DevHuffPadBeforeSync": "huff", "DevHuffEmptyNoEOB": "huff", "DevHuffCloseDropsDst": "huff"} {
		b, err := os.ReadFile(filepath.Join(c.specDir(), "MC_WriterRefine_"+v+".cfg"))
		if err != nil {
			return 0, err
		}
		name := "ST_" + dev + ".cfg"
		res, err := c.TLC(tlc.Run{Module: "WriterRefine", Cfg: name, Timeout: 5 * time.Minute,
			Inline: map[string]string{name: devCfg(string(b), dev)}})
		if err != nil {
			return 0, err
		}
		if res.Violated != "Refines" {
			return 0, fmt.Errorf("WriterRefine with %s = TRUE is not rejected: the refinement check is vacuous there", dev)
		}
		c.logf("refinement: %s = TRUE (what the pinned code did) is rejected by the contract clauses", dev)
	}
	// a Flush that skips the block when the buffer position is where the last marker left it: TLC finds
	// the aliasing history (Write 5, Flush, Write 3, Flush with W = 2), the source of C10's "alias" cases
	{
		b, err := os.ReadFile(filepath.Join(c.specDir(), "MC_WriterMechSync.cfg"))
		if err != nil {
			return 0, err
		}
		res, err := c.TLC(tlc.Run{Module: "WriterMechSync", Cfg: "ST_Sync.cfg", Timeout: 5 * time.Minute,
			Inline: map[string]string{"ST_Sync.cfg": devCfg(string(b), "DevFlushSkipsSameEnd")}})
		if err != nil {
			return 0, err
		}
		if res.Violated != "C10_FlushPoint" {
			return 0, fmt.Errorf("WriterMechSync with DevFlushSkipsSameEnd = TRUE: expected C10_FlushPoint to fail, got %q", res.Violated)
		}
		c.logf("WriterMechSync: DevFlushSkipsSameEnd = TRUE violates C10_FlushPoint (positions alias after a slide)")
	}
	for dev, want := range map[string]string{"DevPeekWholeBuffer = FALSE": "", "DevPeekAtStreamEnd = FALSE": "", "DevResetKeepsWindow = FALSE": "", "Direct = TRUE": ""} {
		_ = want
		b, err := os.ReadFile(filepath.Join(c.specDir(), "MC_ReaderRefine.cfg"))
		if err != nil {
			return 0, err
		}
		flipped := strings.Replace(dev, "FALSE", "TRUE", 1)
		if dev == "Direct = TRUE" {
			flipped = "Direct = FALSE"
		}
		name := "ST_R_" + strings.Fields(dev)[0] + ".cfg"
		res, err := c.TLC(tlc.Run{Module: "ReaderRefine", Cfg: name, Timeout: 5 * time.Minute,
			Inline: map[string]string{name: strings.Replace(string(b), dev, flipped, 1)}})
		if err != nil {
			return 0, err
		}
		if res.Violated != "Refines" {
			return 0, fmt.Errorf("ReaderRefine with %s is not rejected: the refinement check is vacuous there", flipped)
		}
		c.logf("refinement: ReaderMech with %s (what the pinned code did / still does for non-bufio ByteReaders) is rejected by the contract clauses", flipped)
	}
	// the gzip container model: a reader that compares ISIZE with a counter that does not wrap
	// (what seeded change C06-d41 does) rejects valid members at and beyond the modulus
	{
		b, err := os.ReadFile(filepath.Join(c.specDir(), "MC_GzipMech.cfg"))
		if err != nil {
			return 0, err
		}
		name := "ST_G_DevSizeNoWrap.cfg"
		res, err := c.TLC(tlc.Run{Module: "GzipMech", Cfg: name, Timeout: 5 * time.Minute,
			Inline: map[string]string{name: strings.Replace(string(b), "DevSizeNoWrap = FALSE", "DevSizeNoWrap = TRUE", 1)}})
		if err != nil {
			return 0, err
		}
		if res.Violated != "C06_ValidAccepted" {
			return 0, fmt.Errorf("GzipMech with DevSizeNoWrap = TRUE is not rejected (violated: %q)", res.Violated)
		}
		c.logf("GzipMech with DevSizeNoWrap = TRUE violates C06_ValidAccepted, as it must")
	}
	// the container layers: the deviations seeded changes C16-e43 and C06-d43 stand for, and a Close that forgets it has run
	for _, dv := range [][3]string{{"GzipWriterMech", "MC_GzipWriterMech.cfg", "DevHdrErrNotStored"}, {"GzipWriterMech", "MC_GzipWriterMech.cfg", "DevCloseTwiceTrailer"},
		{"ZlibReaderMech", "MC_ZlibReaderMech.cfg", "DevNilDictRejected"}} {
		b, err := os.ReadFile(filepath.Join(c.specDir(), dv[1]))
		if err != nil {
			return 0, err
		}
		name := "ST_" + dv[2] + ".cfg"
		res, err := c.TLC(tlc.Run{Module: dv[0], Cfg: name, Timeout: 5 * time.Minute,
			Inline: map[string]string{name: strings.Replace(string(b), dv[2]+" = FALSE", dv[2]+" = TRUE", 1)}})
		if err != nil {
			return 0, err
		}
		if res.Violated == "" {
			return 0, fmt.Errorf("%s with %s = TRUE is not rejected", dv[0], dv[2])
		}
		c.logf("%s with %s = TRUE violates %s, as it must", dv[0], dv[2], res.Violated)
	}
	// the position arithmetic of the output window for ALL sizes (Apalache, inductive invariant)
	if err := c.windowBoundsProof(); err != nil {
		return 0, err
	}
	// the instance model: working state recycled through a shared pool by an instance that goes
	// on using it (what seeded change C17-f43 does) makes instances depend on each other
	{
		name := "ST_I_DevSharedPool.cfg"
		cfg := "SPECIFICATION Spec\nCONSTANTS\n  N = 2\n  K = 3\n  DevSharedPool = TRUE\nINVARIANTS C17_SameAsSolo\nCHECK_DEADLOCK FALSE\n"
		res, err := c.TLC(tlc.Run{Module: "Instances", Cfg: name, Workers: 1, Timeout: 5 * time.Minute, Inline: map[string]string{name: cfg}})
		if err != nil {
			return 0, err
		}
		if res.Violated != "C17_SameAsSolo" {
			return 0, fmt.Errorf("Instances with DevSharedPool = TRUE is not rejected (violated: %q)", res.Violated)
		}
		c.logf("Instances with DevSharedPool = TRUE violates C17_SameAsSolo, as it must")
	}
	c.ev.Evaluations = 2
	c.ev.nontrivial("writer-trace-corruption")
	c.ev.nontrivial("reader-trace-corruption")
	fmt.Println("SELFTEST OK: corrupted trace fields are rejected at the corrupted line; all model actions are covered")
	return 0, nil
}

type fieldEdit struct {
	ev, sub, field string
	when           func(map[string]interface{}) bool
	fn             func(interface{}) interface{}
	clause         string
}

// corruptAndExpect applies each edit to the first matching event of a copy
// of the trace and requires that validation reports exactly that line with
// the expected clause (and nothing on the unmodified trace).
func (c *Ctx) corruptAndExpect(trace, module, cfg string, edits []fieldEdit) error {
	viols, _, err := c.Validate(module, cfg, trace, false)
	if err != nil {
		return err
	}
	if len(viols) != 0 {
		return fmt.Errorf("selftest: the unmodified trace is not accepted: %v", viols[0])
	}
	f, err := os.Open(trace)
	if err != nil {
		return err
	}
	var lines []string
	sc := bufio.NewScanner(f)
	sc.Buffer(make([]byte, 1<<20), 1<<28)
	for sc.Scan() {
		lines = append(lines, sc.Text())
	}
	f.Close()
	for _, ed := range edits {
		hit := -1
		out := append([]string{}, lines...)
		for i, ln := range lines {
			var m map[string]interface{}
			if json.Unmarshal([]byte(ln), &m) != nil || m["ev"] != ed.ev {
				continue
			}
			if ed.when != nil && !ed.when(m) {
				continue
			}
			tgt := m
			if ed.sub != "" {
				tgt, _ = m[ed.sub].(map[string]interface{})
			}
			tgt[ed.field] = ed.fn(tgt[ed.field])
			b, _ := json.Marshal(m)
			out[i] = string(b)
			hit = i + 1
			break
		}
		if hit < 0 {
			return fmt.Errorf("selftest: no %s event to corrupt", ed.ev)
		}
		p := filepath.Join(c.Scratch, "corrupt.ndjson")
		if err := os.WriteFile(p, []byte(strings.Join(out, "\n")+"\n"), 0o644); err != nil {
			return err
		}
		vs, _, err := c.Validate(module, cfg, p, false)
		if err != nil {
			return err
		}
		found := false
		for _, v := range vs {
			if v.Line == hit {
				for _, cl := range v.Clauses {
					if cl == ed.clause {
						found = true
					}
				}
			}
		}
		if !found {
			return fmt.Errorf("selftest: corrupting %s.%s%s at line %d was not rejected with %s (got %v)", ed.ev, ed.sub, ed.field, hit, ed.clause, vs)
		}
		c.logf("binding: corrupted %s %s.%s at line %d -> rejected there with %s", ed.ev, ed.sub, ed.field, hit, ed.clause)
	}
	return nil
}

// devCfg switches one deviation of WriterMech on (dropping the destination in
// Close is only observable together with the missing closed state).
func devCfg(cfg, dev string) string {
	cfg = strings.Replace(cfg, dev+" = FALSE", dev+" = TRUE", 1)
	if dev == "DevHuffCloseDropsDst" {
		cfg = strings.Replace(cfg, "DevNoClosedState = FALSE", "DevNoClosedState = TRUE", 1)
	}
	return cfg
}

// windowBoundsProof discharges the three obligations of WindowBounds' inductive invariant with
// Apalache (unbounded integers): Init => IndInv, IndInv /\ Next => IndInv', IndInv => Safe.
func (c *Ctx) windowBoundsProof() error {
	if _, err := exec.LookPath("apalache-mc"); err != nil {
		c.logf("apalache-mc not found: the parametric proof of WindowBounds is skipped")
		return nil
	}
	dir, err := os.MkdirTemp(c.Scratch, "apalache")
	if err != nil {
		return err
	}
	defer os.RemoveAll(dir)
	b, err := os.ReadFile(filepath.Join(c.specDir(), "WindowBounds.tla"))
	if err != nil {
		return err
	}
	if err := os.WriteFile(filepath.Join(dir, "WindowBounds.tla"), b, 0o644); err != nil {
		return err
	}
	for _, ob := range [][]string{{"--init=Init", "--inv=IndInv", "--length=0"}, {"--init=IndInit", "--inv=IndInv", "--length=1"}, {"--init=IndInit", "--inv=Safe", "--length=0"}} {
		ctx, cancel := context.WithTimeout(context.Background(), 5*time.Minute)
		cmd := exec.CommandContext(ctx, "apalache-mc", append(append([]string{"check"}, ob...), "--cinit=CInit", "--out-dir="+filepath.Join(dir, "out"), "WindowBounds.tla")...)
		cmd.Dir = dir
		out, _ := cmd.CombinedOutput()
		cancel()
		if !bytes.Contains(out, []byte("The outcome is: NoError")) {
			return fmt.Errorf("WindowBounds: obligation %v not discharged by Apalache: %s", ob, lastLines(string(out), 6))
		}
	}
	c.logf("WindowBounds: Init => IndInv, IndInv /\\ Next => IndInv', IndInv => Safe discharged by Apalache for all sizes with Slack, Slop >= 2 + MaxCopy")
	return nil
}
