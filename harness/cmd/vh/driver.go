package main

import (
	"bufio"
	"bytes"
	"crypto/sha1"
	"encoding/hex"
	"encoding/json"
	"fmt"
	"os"
	"os/exec"
	"path/filepath"
	"sort"
	"strconv"
	"strings"
	"sync"
	"time"

	"verif/harness/tlc"
)

// Ctx is the state of one check run.
type Ctx struct {
	Prop    string
	Tier    string
	Seed    int64
	Root    string // /verif
	Scratch string
	Self    string // this binary
	Levels  []int  // acceleration levels runnable on this host
	Host    int
	Start   time.Time
	Par     int

	ev  Evidence
	log *os.File

	mech        bool // record and validate the compressor's mechanism events (hooks) for level 1/2 flate cases
	reusePrefix bool // writer histories: a third of the cases run on a Writer that was used before and Reset
}

// Case is anything the worker can execute.
// levelPortable names the portable build (noasmtest) among the acceleration levels.
const levelPortable = 9

type Case interface {
	Header() *caseHeader
}

func (c *WCase) Header() *caseHeader {
	return &caseHeader{ID: c.ID, Family: c.Family, Arch: c.Arch}
}

func (c *Ctx) specDir() string { return filepath.Join(c.Root, "spec") }

func (c *Ctx) logf(format string, a ...interface{}) {
	fmt.Fprintf(os.Stderr, "[%s %6.1fs] %s\n", c.Prop, time.Since(c.Start).Seconds(), fmt.Sprintf(format, a...))
}

// TLC runs a model-checking configuration and accounts for it in the evidence.
func (c *Ctx) TLC(r tlc.Run) (*tlc.Result, error) {
	r.SpecDir = c.specDir()
	r.Scratch = c.Scratch
	if r.Workers == 0 {
		r.Workers = c.Par
	}
	res, err := tlc.Exec(r)
	if err != nil {
		return res, err
	}
	c.ev.addTLC(r, res)
	if res.TimedOut {
		return res, fmt.Errorf("TLC timed out on %s/%s", r.Module, r.Cfg)
	}
	if res.EvalError != "" {
		return res, fmt.Errorf("TLC error on %s/%s: %s", r.Module, r.Cfg, res.EvalError)
	}
	return res, nil
}

// ModelCheck runs an MC config that must hold (it checks the design, not the
// code): a violation is a problem of the machinery, never a verdict (R1).
func (c *Ctx) ModelCheck(module, cfg string, timeout time.Duration) error {
	res, err := c.TLC(tlc.Run{Module: module, Cfg: cfg, Timeout: timeout})
	if err != nil {
		return err
	}
	if res.Violated != "" || res.Deadlock {
		return fmt.Errorf("model %s/%s: %s violated at model level (design problem, no verdict)", module, cfg, res.Violated)
	}
	c.logf("model %s/%s: %d states generated, %d distinct, %.1fs", module, cfg, res.Generated, res.Distinct, res.Wall.Seconds())
	return nil
}

// Behaviours runs a GEN config and returns the JSON behaviours it printed.
func (c *Ctx) Behaviours(module, cfg string, inline map[string]string, timeout time.Duration) ([]string, error) {
	res, err := c.TLC(tlc.Run{Module: module, Cfg: cfg, Timeout: timeout, Workers: 1, Inline: inline})
	if err != nil {
		return nil, err
	}
	if res.Violated != "" {
		return nil, fmt.Errorf("GEN %s/%s: unexpected violation %s", module, cfg, res.Violated)
	}
	var out []string
	for _, p := range res.Printed {
		s, ok := tlc.Unquote(p)
		if ok && strings.HasPrefix(s, "BEH ") {
			out = append(out, s[4:])
		}
	}
	sort.Strings(out)
	c.logf("gen %s/%s: %d behaviours, %d distinct states, %.1fs", module, cfg, len(out), res.Distinct, res.Wall.Seconds())
	return out, nil
}

// Simulate runs a GEN config in TLC's simulation mode (seeded) and returns the
// distinct behaviours it printed.
func (c *Ctx) Simulate(module, cfg string, inline map[string]string, num, depth int, seed int64) ([]string, error) {
	res, err := c.TLC(tlc.Run{Module: module, Cfg: cfg, Timeout: 10 * time.Minute, Workers: 1, Inline: inline,
		Simulate: fmt.Sprintf("num=%d", num), Depth: depth, Seed: seed})
	if err != nil {
		return nil, err
	}
	if res.Violated != "" {
		return nil, fmt.Errorf("GEN %s/%s: unexpected violation %s", module, cfg, res.Violated)
	}
	seen := map[string]bool{}
	var out []string
	for _, p := range res.Printed {
		s, ok := tlc.Unquote(p)
		if ok && strings.HasPrefix(s, "BEH ") && !seen[s] {
			seen[s] = true
			out = append(out, s[4:])
		}
	}
	c.logf("gen %s/%s: simulation seed %d, %d distinct behaviours, %.1fs", module, cfg, seed, len(out), res.Wall.Seconds())
	return out, nil
}

// ---------------------------------------------------------------------------

type shard struct {
	arch  int
	cases [][]byte
	ids   []string
	out   string
}

// Execute runs the cases in worker processes, one acceleration level per
// process, and returns the path of the concatenated trace file.
func (c *Ctx) Execute(name string, cases []Case, race bool) (string, error) {
	byArch := map[int][]Case{}
	for _, cs := range cases {
		h := cs.Header()
		byArch[h.Arch] = append(byArch[h.Arch], cs)
	}
	var archs []int
	for a := range byArch {
		archs = append(archs, a)
	}
	sort.Ints(archs)
	per := maxInt(1, c.Par/maxInt(1, len(archs)))
	var shards []*shard
	for _, a := range archs {
		list := byArch[a]
		k := minInt(per, maxInt(1, len(list)/4))
		for i := 0; i < k; i++ {
			sh := &shard{arch: a}
			for j := i; j < len(list); j += k {
				b, err := json.Marshal(list[j])
				if err != nil {
					return "", err
				}
				sh.cases = append(sh.cases, b)
				sh.ids = append(sh.ids, list[j].Header().ID)
			}
			shards = append(shards, sh)
		}
	}
	sem := make(chan struct{}, c.Par)
	var wg sync.WaitGroup
	errs := make([]error, len(shards))
	for i, sh := range shards {
		wg.Add(1)
		go func(i int, sh *shard) {
			defer wg.Done()
			sem <- struct{}{}
			defer func() { <-sem }()
			sh.out = filepath.Join(c.Scratch, fmt.Sprintf("%s-%d.trace", name, i))
			errs[i] = c.runShard(name, i, sh, race)
		}(i, sh)
	}
	wg.Wait()
	for _, e := range errs {
		if e != nil {
			return "", e
		}
	}
	all := filepath.Join(c.Scratch, name+".ndjson")
	of, err := os.Create(all)
	if err != nil {
		return "", err
	}
	defer of.Close()
	// write the traces in the order of the case list (comparison groups are adjacent there)
	byCase := map[string][][]byte{}
	needle := []byte(`"case":"`)
	for _, sh := range shards {
		b, err := os.ReadFile(sh.out)
		if err != nil {
			return "", err
		}
		os.Remove(sh.out)
		for _, ln := range bytes.SplitAfter(b, []byte("\n")) {
			if len(ln) == 0 {
				continue
			}
			id := ""
			if i := bytes.Index(ln, needle); i >= 0 {
				rest := ln[i+len(needle):]
				if j := bytes.IndexByte(rest, '"'); j >= 0 {
					id = string(rest[:j])
				}
			}
			byCase[id] = append(byCase[id], ln)
		}
	}
	w := bufio.NewWriterSize(of, 1<<20)
	for _, cs := range cases {
		id := cs.Header().ID
		for _, ln := range byCase[id] {
			w.Write(ln)
		}
		delete(byCase, id)
	}
	for id, lns := range byCase {
		return "", fmt.Errorf("trace lines for unknown case %q (%d lines)", id, len(lns))
	}
	return all, w.Flush()
}

// runShard runs one worker; when the worker dies or hangs in a case, a
// synthetic Crash/Hang event is recorded for that case and the rest of the
// shard continues in a new worker.
func (c *Ctx) runShard(name string, idx int, sh *shard, race bool) error {
	bin := c.Self
	if race {
		bin = os.Getenv("VERIF_RACE_BIN")
		if bin == "" {
			return fmt.Errorf("no race-enabled harness binary (VERIF_RACE_BIN)")
		}
	}
	level := sh.arch
	if sh.arch == levelPortable {
		// the portable build of the library (build tag noasmtest: what every non-amd64 target
		// compiles) is run as one more "acceleration level"
		level = 0
		if pb := os.Getenv("VERIF_PORTABLE_BIN"); pb != "" && !race {
			bin = pb
		}
	}
	remaining := sh.cases
	ids := sh.ids
	out, err := os.Create(sh.out)
	if err != nil {
		return err
	}
	defer out.Close()
	for round := 0; len(remaining) > 0; round++ {
		in := filepath.Join(c.Scratch, fmt.Sprintf("%s-%d-%d.cases", name, idx, round))
		part := filepath.Join(c.Scratch, fmt.Sprintf("%s-%d-%d.part", name, idx, round))
		prog := filepath.Join(c.Scratch, fmt.Sprintf("%s-%d-%d.prog", name, idx, round))
		if err := os.WriteFile(in, append(bytes.Join(remaining, []byte("\n")), '\n'), 0o644); err != nil {
			return err
		}
		cmd := exec.Command(bin, "worker", "--in", in, "--out", part, "--prog", prog)
		cmd.Env = append(os.Environ(), "FASTGO_VERIF_ARCHLEVEL="+strconv.Itoa(level), "GOTRACEBACK=single", "GORACE=halt_on_error=1 exitcode=66")
		var stderr bytes.Buffer
		cmd.Stderr = &stderr
		runErr := cmd.Run()
		pb, _ := os.ReadFile(part)
		// keep only complete lines
		if i := bytes.LastIndexByte(pb, '\n'); i >= 0 {
			pb = pb[:i+1]
		} else {
			pb = nil
		}
		os.Remove(in)
		os.Remove(part)
		progB, _ := os.ReadFile(prog)
		os.Remove(prog)
		if runErr == nil {
			out.Write(pb)
			return nil
		}
		code := -1
		if ee, ok := runErr.(*exec.ExitError); ok {
			code = ee.ExitCode()
		}
		if code == 2 && !bytes.Contains(stderr.Bytes(), []byte("fatal error")) && !bytes.Contains(stderr.Bytes(), []byte("SIG")) {
			return fmt.Errorf("worker failed: %s", lastLines(stderr.String(), 5))
		}
		// find the case that was running
		lines := strings.Split(strings.TrimSpace(string(progB)), "\n")
		last := lines[len(lines)-1]
		f := strings.Fields(last)
		if len(f) < 3 || (f[0] != "START" && f[0] != "HANG") {
			return fmt.Errorf("worker died outside a case (exit %d): %s", code, lastLines(stderr.String(), 8))
		}
		n, _ := strconv.Atoi(f[1])
		id := ids[n]
		// drop the partial events of the dying case, keep the earlier ones
		pb = dropCase(pb, id)
		out.Write(pb)
		kind := "Crash"
		if f[0] == "HANG" || code == 3 {
			kind = "Hang"
		}
		if bytes.Contains(stderr.Bytes(), []byte("DATA RACE")) {
			kind = "Race"
		}
		// the clause of the running check's own property that a case without a result violates
		ev := map[string]interface{}{"ev": kind, "case": id, "panic": kind + ": " + lastLines(stderr.String(), 3), "arch": sh.arch,
			"clauses": []string{c.Prop + ".returns"}}
		b, _ := json.Marshal(ev)
		out.Write(append(b, '\n'))
		c.logf("worker %s in case %s (arch %d): %s", kind, id, sh.arch, firstLines(stderr.String(), 40))
		remaining = remaining[n+1:]
		ids = ids[n+1:]
	}
	return nil
}

func dropCase(trace []byte, id string) []byte {
	needle := []byte(`"case":"` + id + `"`)
	var out []byte
	for _, ln := range bytes.SplitAfter(trace, []byte("\n")) {
		if len(ln) == 0 || bytes.Contains(ln, needle) {
			continue
		}
		out = append(out, ln...)
	}
	return out
}

func firstLines(s string, n int) string {
	ls := strings.Split(strings.TrimSpace(s), "\n")
	if len(ls) > n {
		ls = ls[:n]
	}
	return strings.Join(ls, "\n    ")
}

func lastLines(s string, n int) string {
	ls := strings.Split(strings.TrimSpace(s), "\n")
	if len(ls) > n {
		ls = ls[len(ls)-n:]
	}
	return strings.Join(ls, " | ")
}

// ---------------------------------------------------------------------------

// Viol is one event that violates contract clauses.
type Viol struct {
	Line    int      `json:"l"`
	Clauses []string `json:"c"`
	Case    string   `json:"-"`
	Event   string   `json:"-"`
}

// Validate runs a trace specification over a trace file.
func (c *Ctx) Validate(module, cfg, trace string, impl bool) ([]Viol, int, error) {
	st, err := os.Stat(trace)
	if err != nil {
		return nil, 0, err
	}
	if st.Size() == 0 {
		return nil, 0, nil
	}
	if keep := os.Getenv("VERIF_KEEP"); keep != "" { // debugging aid: keep the trace files
		if b, err := os.ReadFile(trace); err == nil {
			os.WriteFile(filepath.Join(keep, filepath.Base(trace)), b, 0o644)
		}
	}
	res, err := c.TLC(tlc.Run{Module: module, Cfg: cfg, Workers: 1, Timeout: 10 * time.Minute,
		Files: map[string]string{"trace.ndjson": trace}})
	if err != nil {
		return nil, 0, err
	}
	var done string
	for _, p := range res.Printed {
		if s, ok := tlc.Unquote(p); ok && strings.HasPrefix(s, "DONE ") {
			done = s[5:]
		}
	}
	if done == "" {
		return nil, 0, fmt.Errorf("trace validation %s/%s did not reach the end of the trace (diameter %d): %s",
			module, cfg, res.Diameter, lastLines(res.Stdout, 12))
	}
	sp := strings.SplitN(done, " ", 2)
	n, _ := strconv.Atoi(sp[0])
	var viols []Viol
	if err := json.Unmarshal([]byte(sp[1]), &viols); err != nil {
		return nil, 0, fmt.Errorf("cannot parse validation result: %v", err)
	}
	// attach case ids and events
	if len(viols) > 0 {
		want := map[int]int{}
		for i, v := range viols {
			want[v.Line] = i
		}
		f, err := os.Open(trace)
		if err != nil {
			return nil, 0, err
		}
		defer f.Close()
		sc := bufio.NewScanner(f)
		sc.Buffer(make([]byte, 1<<20), 1<<28)
		ln := 0
		for sc.Scan() {
			ln++
			if i, ok := want[ln]; ok {
				var h struct {
					Case string `json:"case"`
				}
				json.Unmarshal(sc.Bytes(), &h)
				viols[i].Case = h.Case
				viols[i].Event = sc.Text()
			}
		}
	}
	if impl {
		c.ev.Events += n
	}
	return viols, n, nil
}

func hashOf(b []byte) string {
	h := sha1.Sum(b)
	return hex.EncodeToString(h[:])[:12]
}
