// Command vh is the verification harness of /verif: driver (check), worker
// (executes cases against the real code at one acceleration level) and
// replay.
package main

import (
	"encoding/json"
	"flag"
	"fmt"
	"os"
	"os/exec"
	"path/filepath"
	"runtime"
	"strconv"
	"strings"
	"time"
)

type checkFn func(c *Ctx) (violations int, err error)

var checks = map[string]checkFn{}

func main() {
	if len(os.Args) < 2 {
		fmt.Fprintln(os.Stderr, "usage: vh check|worker|replay ...")
		os.Exit(2)
	}
	switch os.Args[1] {
	case "worker":
		fs := flag.NewFlagSet("worker", flag.ExitOnError)
		in := fs.String("in", "", "")
		out := fs.String("out", "", "")
		prog := fs.String("prog", "", "")
		to := fs.Duration("case-timeout", 90*time.Second, "")
		fs.Parse(os.Args[2:])
		os.Exit(runWorker(*in, *out, *prog, *to))
	case "explain":
		os.Exit(explainReplay(os.Args[2]))
	case "level":
		fmt.Println(hostLevel())
	case "check":
		os.Exit(runCheck(os.Args[2:]))
	default:
		fmt.Fprintln(os.Stderr, "unknown subcommand", os.Args[1])
		os.Exit(2)
	}
}

func runCheck(args []string) int {
	fs := flag.NewFlagSet("check", flag.ExitOnError)
	tier := fs.String("tier", "", "quick|thorough")
	root := fs.String("root", "/verif", "")
	replay := fs.String("replay", "", "replay file")
	scratch := fs.String("scratch", "", "scratch directory")
	if len(args) < 1 {
		fmt.Fprintln(os.Stderr, "usage: vh check <ID> [--tier quick|thorough] [--replay file]")
		return 2
	}
	prop := args[0]
	fs.Parse(args[1:])
	if *tier == "" {
		*tier = os.Getenv("VERIF_TIER")
	}
	if *tier == "" {
		*tier = "quick"
	}
	seed := int64(1)
	if s := os.Getenv("VERIF_SEED"); s != "" {
		if v, err := strconv.ParseInt(s, 10, 64); err == nil {
			seed = v
		}
	}
	self, _ := os.Executable()
	c := &Ctx{Prop: prop, Tier: *tier, Seed: seed, Root: *root, Scratch: *scratch, Self: self, Start: time.Now(), Par: runtime.NumCPU()}
	if c.Par > 16 {
		c.Par = 16
	}
	if c.Scratch == "" {
		d, err := os.MkdirTemp("", "vh-")
		if err != nil {
			fmt.Fprintln(os.Stderr, err)
			return 2
		}
		c.Scratch = d
		defer os.RemoveAll(d)
	}
	c.ev.Extra = map[string]interface{}{}
	c.Host = hostLevelOf(self)
	// (the detector in internal/cpu also returns 2, for x86-64-v2 CPUs without AVX2: the code paths of level 1)
	for _, l := range []int{0, 1, 2, 3, 4} {
		if l <= c.Host {
			c.Levels = append(c.Levels, l)
		}
	}
	if pb := os.Getenv("VERIF_PORTABLE_BIN"); pb != "" {
		if _, err := os.Stat(pb); err == nil {
			c.Levels = append(c.Levels, levelPortable)
		}
	}
	if v := os.Getenv("VERIF_LEVELS"); v != "" { // debugging aid: restrict the acceleration levels
		c.Levels = nil
		for _, f := range strings.Split(v, ",") {
			if n, err := strconv.Atoi(f); err == nil && (n <= c.Host || n == levelPortable) {
				c.Levels = append(c.Levels, n)
			}
		}
	}
	c.ev.Levels = c.Levels
	if *replay != "" {
		return runReplay(c, *replay)
	}
	fn, ok := checks[prop]
	if !ok {
		fmt.Fprintln(os.Stderr, "no check for property", prop)
		return 2
	}
	n, err := fn(c)
	c.ev.Violations = n
	if prop == "selftest" {
		// a test of the machinery, not of a property: no evidence file
	} else if werr := c.writeEvidence(); werr != nil {
		fmt.Fprintln(os.Stderr, "cannot write evidence:", werr)
		return 2
	}
	if err != nil {
		fmt.Fprintf(os.Stderr, "MACHINERY-PROBLEM property=%s: %v\n", prop, err)
		if n > 0 {
			return 1
		}
		return 2
	}
	if n > 0 {
		return 1
	}
	fmt.Printf("OK property=%s tier=%s seed=%d traces=%d states=%d wall=%.1fs\n", prop, c.Tier, c.Seed, c.ev.Traces, c.ev.States, time.Since(c.Start).Seconds())
	return 0
}

// hostLevelOf asks a child process (no override in its environment) for the
// level the library detects on this host.
func hostLevelOf(self string) int {
	cmd := exec.Command(self, "level")
	var env []string
	for _, e := range os.Environ() {
		if !strings.HasPrefix(e, "FASTGO_VERIF_ARCHLEVEL=") {
			env = append(env, e)
		}
	}
	cmd.Env = env
	out, err := cmd.Output()
	if err != nil {
		return 0
	}
	n, _ := strconv.Atoi(strings.TrimSpace(string(out)))
	return n
}

// runReplay re-executes the case of a replay file and validates its trace.
func runReplay(c *Ctx, path string) int {
	b, err := os.ReadFile(path)
	if err != nil {
		fmt.Fprintln(os.Stderr, err)
		return 2
	}
	var r Replay
	if err := json.Unmarshal(b, &r); err != nil {
		fmt.Fprintln(os.Stderr, "bad replay file:", err)
		return 2
	}
	cs, module, cfg, err := decodeCase(r.Case)
	if err != nil {
		fmt.Fprintln(os.Stderr, err)
		return 2
	}
	cd := &Candidate{Case: cs, Arch: r.Arch}
	for _, g := range r.Group {
		gc, _, _, err := decodeCase(g)
		if err != nil {
			fmt.Fprintln(os.Stderr, err)
			return 2
		}
		cd.Group = append(cd.Group, gc)
	}
	tries := 1
	if cs.Header().Family == "conc" {
		tries = 40 // scheduler-dependent: re-executed until the violation shows again
	}
	var ok bool
	var clauses []string
	for t := 0; t < tries && !ok; t++ {
		ok, clauses, err = c.replayOnce(cd, module, cfg)
		if err != nil {
			fmt.Fprintln(os.Stderr, "MACHINERY-PROBLEM:", err)
			return 2
		}
	}
	if ok {
		fmt.Printf("VIOLATION property=%s replay=%s clauses=%s\n", c.Prop, filepath.Clean(path), strings.Join(clauses, ","))
		return 1
	}
	fmt.Printf("OK property=%s replay=%s: the recorded case no longer violates the property\n", c.Prop, path)
	return 0
}

// decodeCase rebuilds a case from its JSON and names the trace spec that judges it.
func decodeCase(raw json.RawMessage) (Case, string, string, error) {
	var h caseHeader
	if err := json.Unmarshal(raw, &h); err != nil {
		return nil, "", "", err
	}
	switch h.Family {
	case "writer", "ctor":
		var w WCase
		if err := json.Unmarshal(raw, &w); err != nil {
			return nil, "", "", err
		}
		return &w, "WriterTrace", "TV_Writer.cfg", nil
	}
	if d, ok := decoders[h.Family]; ok {
		return d(raw)
	}
	return nil, "", "", fmt.Errorf("unknown case family %q", h.Family)
}

var decoders = map[string]func(json.RawMessage) (Case, string, string, error){}
