package main

import (
	"bufio"
	"bytes"
	stdflate "compress/flate"
	stdgzip "compress/gzip"
	stdzlib "compress/zlib"
	"crypto/sha1"
	"encoding/hex"
	"encoding/json"
	"errors"
	"fmt"
	"io"
	"strings"

	fgflate "github.com/intel/fastgo/compress/flate"
	fggzip "github.com/intel/fastgo/compress/gzip"
	fgzlib "github.com/intel/fastgo/compress/zlib"
)

// RSource describes how the compressed bytes reach the Reader.
type RSource struct {
	Kind     string `json:"kind"`     // "plain" | "bufio" | "bytesReader" | "bytesBuffer" | "stringsReader" | "byteReader"
	BufSize  int    `json:"bufsize"`  // bufio size
	Chunks   []int  `json:"chunks"`   // cyclic schedule of source read sizes (0 = as much as asked)
	EOFData  bool   `json:"eofdata"`  // the last bytes come together with io.EOF
	FailAt   int    `json:"failat"`   // >= 0: the source fails after delivering this many bytes
	FailData bool   `json:"faildata"` // the error comes together with the last bytes before it
	Released int    `json:"released"` // >= 0: the source is gated after this many bytes
	After    string `json:"after"`    // behaviour at the gate: "block" | "error"; "garbage": unrelated bytes follow (no gate)
	Garbage  int    `json:"garbage"`  // After == "garbage": the offset at which the unrelated bytes start
	ErrKind  string `json:"errkind"`  // what the injected error looks like (errKinds): plain, or wrapping / claiming to be a sentinel
}

// RSeg is one use of the Reader: construction or Reset, then reads.
type RSeg struct {
	Stream  RStream   `json:"stream"`
	Src     RSource   `json:"src"`
	Reads   []int     `json:"reads"`   // cyclic schedule of caller buffer sizes
	Stop    int       `json:"stop"`    // > 0: abandon the stream after this many Read calls (C13)
	Dict    *DataSpec `json:"dict"`    // zlib / flate dictionary handed to the constructor or Reset
	Multi   bool      `json:"multi"`   // gzip: multistream mode (default true in the library)
	Members bool      `json:"members"` // gzip: Multistream(false) and Reset on the same source for every member
	Hdr     bool      `json:"hdr"`     // compare the gzip header fields with the encoder's
	SameSrc bool      `json:"samesrc"` // the source is the very object of the previous segment, re-targeted at this stream (bytes.Reader.Reset, strings.Reader.Reset)

	srcObj io.Reader
	ss     *schedSource
	rest   func() int
	exact  bool
}

// RCase is one reader history.
type RCase struct {
	ID        string    `json:"id"`
	Family    string    `json:"family"`
	Arch      int       `json:"arch"`
	Impl      string    `json:"impl"`
	Kind      string    `json:"kind"`
	Segs      []RSeg    `json:"segs"`
	Group     string    `json:"group"` // comparison group (C04 / C18 / C13)
	GClause   string    `json:"gclause"`
	Tag       string    `json:"tag"`
	Mech      bool      `json:"mech"`      // record the Reader's mechanism events (hooks) as well
	GroupLast bool      `json:"grouplast"` // only the last segment takes part in the group comparison
	Huge      *HugeSpec `json:"huge"`      // instead of Segs: a gzip file with a member of about 4 GiB (hugecase.go)
}

// GroupKey names the comparison group of the case.
func (c *RCase) GroupKey() string { return c.Group }

func (c *RCase) Header() *caseHeader { return &caseHeader{ID: c.ID, Family: "reader", Arch: c.Arch} }

func init() {
	families["reader"] = func(raw []byte, arch int, emit func(interface{})) {
		var c RCase
		if err := json.Unmarshal(raw, &c); err != nil {
			panic(err)
		}
		execReaderCase(&c, arch, emit)
	}
	decoders["reader"] = func(raw json.RawMessage) (Case, string, string, error) {
		var c RCase
		if err := json.Unmarshal(raw, &c); err != nil {
			return nil, "", "", err
		}
		return &c, "ReaderTrace", "TV_Reader.cfg", nil
	}
	identitySetters["reader"] = func(cs Case, id string, arch int, group string) {
		c := cs.(*RCase)
		c.ID, c.Arch, c.Group = id, arch, group
		if group == "" {
			c.GClause = ""
		}
	}
}

// REvent is one line of a reader trace.
type REvent struct {
	Ev   string `json:"ev"`
	Case string `json:"case"`
	// Begin
	Kind       string `json:"kind"`
	Impl       string `json:"impl"`
	Arch       int    `json:"arch"`
	Ctor       string `json:"ctor"`
	SrcKind    string `json:"src"`
	Exact      bool   `json:"exact"`
	SLen       int    `json:"sLen"`
	Released   int    `json:"released"`
	After      string `json:"after"`
	DecAt      int    `json:"decAt"`
	MayGate    bool   `json:"mayGate"`
	Ref        ROrc   `json:"ref"`
	Std        ROrc   `json:"std"`
	OracleSame bool   `json:"oracleSame"`
	Cut        bool   `json:"cut"`
	Partial    bool   `json:"partial"`
	Member     bool   `json:"member"`
	HdrCheck   bool   `json:"hdrCheck"`
	Group      string `json:"group"`
	GClause    string `json:"groupClause"`
	Truncated  bool   `json:"truncated"`  // the source bytes are a proper prefix of a longer string (last mutation is a truncation)
	Failing    bool   `json:"failing"`    // the source is set up to fail (C15)
	WantLen    int    `json:"wantLen"`    // >= 0: the payload an encoder was asked to write into this stream / member
	WantDigest string `json:"wantDigest"` // its digest
	// Src
	Pos int `json:"pos"`
	// Read / Src
	K     int    `json:"k"`
	N     int    `json:"n"`
	Err   string `json:"err"`
	Errd  string `json:"errd"`
	Ok    bool   `json:"ok"`
	Given int    `json:"given"`
	Cnt   int    `json:"cnt"`
	Panic string `json:"panic"`
	Dead  bool   `json:"dead"` // Read with err corrupt: no continuation of the input was found that a decoder could accept
	// End
	Seg      int    `json:"seg"` // index of the segment the event belongs to
	Rest     int    `json:"rest"`
	WantRest int    `json:"wantRest"` // bytes that should be left when the stream ended cleanly (-1: not applicable)
	Digest   string `json:"digest"`
	HdrOK    bool   `json:"hdrOK"`
}

// ROrc is an oracle's verdict in a Begin event.
type ROrc struct {
	Verdict string `json:"verdict"`
	Len     int    `json:"len"`
	End     int    `json:"end"`
	Dead    bool   `json:"dead"` // no continuation of the bytes can make them a valid stream
}

// ---------------------------------------------------------------------------
// Sources

type schedSource struct {
	data     []byte
	pos      int
	spec     RSource
	ci       int
	failed   bool
	errVal   error
	gateOpen bool
	rec      *rrec
}

func (s *schedSource) Read(p []byte) (int, error) {
	if len(p) == 0 {
		return 0, nil
	}
	if s.failed {
		s.rec.src(s.pos, 0, "injected")
		return 0, s.errVal
	}
	limit := len(s.data)
	if s.spec.Released >= 0 && !s.gateOpen && s.spec.Released <= limit {
		limit = s.spec.Released
		if s.pos >= limit {
			// the Reader asks for bytes that a blocking source would not deliver
			s.rec.gate()
			if s.spec.After == "error" {
				s.failed, s.errVal = true, newInjectedKind(s.spec.ErrKind)
				s.rec.src(s.pos, 0, "injected")
				return 0, s.errVal
			}
			s.gateOpen = true // the decision has been recorded; let the run finish
			limit = len(s.data)
		}
	}
	if s.spec.FailAt >= 0 && s.spec.FailAt < limit {
		limit = s.spec.FailAt
		if s.pos >= limit {
			s.failed, s.errVal = true, newInjectedKind(s.spec.ErrKind)
			s.rec.src(s.pos, 0, "injected")
			return 0, s.errVal
		}
	}
	if s.pos >= len(s.data) {
		s.rec.src(s.pos, 0, "eof")
		return 0, io.EOF
	}
	n := len(p)
	if len(s.spec.Chunks) > 0 {
		c := s.spec.Chunks[s.ci%len(s.spec.Chunks)]
		s.ci++
		if c > 0 && c < n {
			n = c
		}
	}
	if s.pos+n > limit {
		n = limit - s.pos
	}
	copy(p, s.data[s.pos:s.pos+n])
	s.pos += n
	if s.spec.FailAt >= 0 && s.pos == s.spec.FailAt && s.spec.FailData && s.spec.FailAt < len(s.data) {
		s.failed, s.errVal = true, newInjectedKind(s.spec.ErrKind)
		s.rec.src(s.pos, n, "injected")
		return n, s.errVal
	}
	if s.pos == len(s.data) && s.spec.EOFData {
		s.rec.src(s.pos, n, "eof")
		return n, io.EOF
	}
	s.rec.src(s.pos, n, "nil")
	return n, nil
}

// byteSource is a caller-defined io.ByteReader that is not one of the library types.
type byteSource struct{ s *schedSource }

func (b *byteSource) Read(p []byte) (int, error) { return b.s.Read(p) }
func (b *byteSource) ReadByte() (byte, error) {
	var x [1]byte
	for {
		n, err := b.s.Read(x[:])
		if n == 1 {
			return x[0], nil
		}
		if err != nil {
			return 0, err
		}
	}
}

// copySink is the destination of io.Copy when a case drains the Reader that way.
type copySink struct{ onWrite func(p []byte) }

func (c *copySink) Write(p []byte) (int, error) { c.onWrite(p); return len(p), nil }

// seekSource is an io.ReadSeeker whose Seek fails, like a file that is a pipe.
type seekSource struct{ s *schedSource }

func (b *seekSource) Read(p []byte) (int, error) { return b.s.Read(p) }
func (b *seekSource) Seek(off int64, whence int) (int64, error) {
	return 0, errors.New("seek: illegal seek")
}

// richSource also has WriteTo, Close, Len and Size.
type richSource struct {
	seekSource
	size int
}

func (b *richSource) WriteTo(w io.Writer) (n int64, err error) {
	buf := make([]byte, 512)
	for {
		k, e := b.s.Read(buf)
		if k > 0 {
			m, we := w.Write(buf[:k])
			n += int64(m)
			if we != nil {
				return n, we
			}
		}
		if e == io.EOF {
			return n, nil
		}
		if e != nil {
			return n, e
		}
	}
}
func (b *richSource) Close() error { return nil }
func (b *richSource) Len() int     { return b.size - b.s.pos }
func (b *richSource) Size() int64  { return int64(b.size) }

// rrec records events with run-length merging: uniform successes (source
// reads without error; caller Reads of the same buffer size without error
// and with the same correctness flag) are accumulated in one pending Src and
// one pending Read event, which are written out, Src first, before any event
// that is not such a success.  The relative order of merged successes is not
// preserved; every clause of the contract that looks at an individual event
// (errors, gate, sticky results, counts) still sees it in order.
type rrec struct {
	id      string
	emit    func(interface{})
	pSrc    *REvent
	pRead   *REvent
	given   int
	dead    bool // the next error event carries dead = TRUE
	lastErr string
	lastRaw string // the text of the first corrupt-input error of the segment (C13 compares it between a fresh and a reset Reader)
}

func (r *rrec) flush() {
	if r.pSrc != nil {
		r.emit(*r.pSrc)
		r.pSrc = nil
	}
	if r.pRead != nil {
		r.emit(*r.pRead)
		r.pRead = nil
	}
}

func (r *rrec) src(pos, n int, err string) {
	if err == "nil" {
		if p := r.pSrc; p != nil && p.Cnt < 1<<30 {
			p.Cnt++
			p.N += n
			p.Pos = pos
			return
		}
		r.pSrc = &REvent{Ev: "Src", Case: r.id, Pos: pos, N: n, Err: err, Cnt: 1}
		return
	}
	r.flush()
	r.emit(REvent{Ev: "Src", Case: r.id, Pos: pos, N: n, Err: err, Cnt: 1})
}

func (r *rrec) gate() {
	r.flush()
	r.emit(REvent{Ev: "Gate", Case: r.id, Given: r.given})
}

func (r *rrec) read(k, n int, err, errd string, ok bool, pan string) {
	r.given += n
	r.lastErr = err
	if err == "nil" && pan == "" && n >= 0 && n <= k {
		if p := r.pRead; p != nil && p.Ok == ok {
			p.Cnt++
			p.K = maxInt(p.K, k)
			p.N += n
			p.Given = r.given
			return
		}
		if r.pRead != nil {
			r.flush()
		}
		r.pRead = &REvent{Ev: "Read", Case: r.id, K: k, N: n, Err: err, Ok: ok, Given: r.given, Cnt: 1}
		return
	}
	r.flush()
	r.emit(REvent{Ev: "Read", Case: r.id, K: k, N: n, Err: err, Errd: errd, Ok: ok, Given: r.given, Cnt: 1, Panic: pan, Dead: r.dead})
}

// ---------------------------------------------------------------------------

func errClassR(err error, src *schedSource) (class, detail string) {
	switch {
	case err == nil:
		return "nil", ""
	case err == io.EOF:
		return "eof", ""
	case src != nil && src.errVal != nil && err == src.errVal:
		return "injected", ""
	case src != nil && src.errVal != nil && errors.Is(err, src.errVal):
		return "other", "the source's error wrapped in another: " + err.Error()
	case errors.Is(err, io.ErrUnexpectedEOF):
		return "uxeof", ""
	}
	var ie *injectedError
	if errors.As(err, &ie) {
		return "stale-injected", err.Error()
	}
	var ce stdflate.CorruptInputError
	if errors.As(err, &ce) {
		return "corrupt", "corrupt-input"
	}
	switch err {
	case stdgzip.ErrChecksum, fggzip.ErrChecksum, stdzlib.ErrChecksum, fgzlib.ErrChecksum:
		return "corrupt", "checksum"
	case stdgzip.ErrHeader, fggzip.ErrHeader, stdzlib.ErrHeader, fgzlib.ErrHeader:
		return "corrupt", "header"
	case stdzlib.ErrDictionary, fgzlib.ErrDictionary:
		return "corrupt", "dictionary"
	}
	s := err.Error()
	if strings.Contains(s, "corrupt input") {
		return "corrupt", "corrupt-input"
	}
	return "other", s
}

type readerUnderTest struct {
	r     io.Reader
	reset func(src io.Reader, dict []byte) error
	gz    interface{ Multistream(bool) }
	gzHdr func() GzHeader
}

func toGzHeader(name, comment string, extra []byte, mt int64, os byte) GzHeader {
	return GzHeader{Name: name, Comment: comment, Extra: extra, ModTime: mt, OS: os}
}

func newReader(impl, kind string, src io.Reader, dict []byte) (u readerUnderTest, err error) {
	switch impl + "/" + kind {
	case "fastgo/flate":
		var r io.ReadCloser
		if dict != nil {
			r = fgflate.NewReaderDict(src, dict)
		} else {
			r = fgflate.NewReader(src)
		}
		u.r = r
		u.reset = func(s io.Reader, d []byte) error { return r.(fgflate.Resetter).Reset(s, d) }
	case "std/flate":
		var r io.ReadCloser
		if dict != nil {
			r = stdflate.NewReaderDict(src, dict)
		} else {
			r = stdflate.NewReader(src)
		}
		u.r = r
		u.reset = func(s io.Reader, d []byte) error { return r.(stdflate.Resetter).Reset(s, d) }
	case "fastgo/gzip":
		r, e := fggzip.NewReader(src)
		if e != nil {
			return u, e
		}
		u.r, u.gz = r, r
		u.reset = func(s io.Reader, d []byte) error { return r.Reset(s) }
		u.gzHdr = func() GzHeader {
			mt := int64(0)
			if !r.ModTime.IsZero() {
				mt = r.ModTime.Unix()
			}
			return toGzHeader(r.Name, r.Comment, r.Extra, mt, r.OS)
		}
	case "std/gzip":
		r, e := stdgzip.NewReader(src)
		if e != nil {
			return u, e
		}
		u.r, u.gz = r, r
		u.reset = func(s io.Reader, d []byte) error { return r.Reset(s) }
		u.gzHdr = func() GzHeader {
			mt := int64(0)
			if !r.ModTime.IsZero() {
				mt = r.ModTime.Unix()
			}
			return toGzHeader(r.Name, r.Comment, r.Extra, mt, r.OS)
		}
	case "fastgo/zlib":
		var r io.ReadCloser
		var e error
		if dict != nil {
			r, e = fgzlib.NewReaderDict(src, dict)
		} else {
			r, e = fgzlib.NewReader(src)
		}
		if e != nil {
			return u, e
		}
		u.r = r
		u.reset = func(s io.Reader, d []byte) error { return r.(fgzlib.Resetter).Reset(s, d) }
	case "std/zlib":
		var r io.ReadCloser
		var e error
		if dict != nil {
			r, e = stdzlib.NewReaderDict(src, dict)
		} else {
			r, e = stdzlib.NewReader(src)
		}
		if e != nil {
			return u, e
		}
		u.r = r
		u.reset = func(s io.Reader, d []byte) error { return r.(stdzlib.Resetter).Reset(s, d) }
	default:
		return u, fmt.Errorf("unknown reader %s/%s", impl, kind)
	}
	return u, nil
}

// callerSource builds the object handed to the Reader and a function that
// tells how many bytes of the underlying data it has not consumed yet.
func callerSource(spec RSource, data []byte, rec *rrec) (src io.Reader, ss *schedSource, rest func() int, exact bool) {
	switch spec.Kind {
	case "bytesReader":
		r := bytes.NewReader(data)
		return r, nil, r.Len, true
	case "bytesBuffer":
		r := bytes.NewBuffer(append([]byte{}, data...))
		return r, nil, r.Len, true
	case "stringsReader":
		r := strings.NewReader(string(data))
		return r, nil, r.Len, true
	}
	ss = &schedSource{data: data, spec: spec, rec: rec}
	switch spec.Kind {
	case "bufio":
		br := bufio.NewReaderSize(ss, spec.BufSize)
		return br, ss, func() int { return len(data) - (ss.pos - br.Buffered()) }, true
	case "byteReader":
		return &byteSource{ss}, ss, func() int { return len(data) - ss.pos }, true
	case "seeker":
		// what *os.File is for a pipe, a FIFO, a terminal or a socket: statically an io.Seeker, but not seekable
		return &seekSource{ss}, ss, func() int { return len(data) - ss.pos }, false
	case "rich":
		// a source with the optional interfaces libraries like to test for
		return &richSource{seekSource{ss}, len(data)}, ss, func() int { return len(data) - ss.pos }, false
	default:
		return struct{ io.Reader }{ss}, ss, func() int { return len(data) - ss.pos }, false
	}
}

func sameGz(a, b GzHeader) bool {
	return a.Name == b.Name && a.Comment == b.Comment && bytes.Equal(a.Extra, b.Extra) && a.ModTime == b.ModTime && a.OS == b.OS
}

// execReaderCase runs the segments of a case on one Reader.
func execReaderCase(c *RCase, arch int, emit func(interface{})) {
	if c.Huge != nil {
		execHugeCase(c, arch, emit)
		return
	}
	rec := &rrec{id: c.ID, emit: emit}
	if c.Mech && c.Impl == "fastgo" {
		// mechanism events of the inflater's input handling, interleaved with the contract events
		nm := 0
		fgflate.VerifSetReaderTrace(func(ev string, a, b, cc, d int) {
			// the order relative to the (merged) contract events does not matter: two separate validations;
			// a case contributes its first few thousand mechanism events
			if nm++; nm <= 3000 {
				emit(MechEvent{Ev: "RMech", Case: c.ID, M: ev, A: a, B: b, C: cc, D: d})
			}
		})
		defer fgflate.VerifSetReaderTrace(nil)
		// the sizes the window and the header staging are built with (WindowMech's assumptions)
		hs, behind, margin, longest, staging := fgflate.VerifReaderConstants()
		emit(MechEvent{Ev: "RMech", Case: c.ID, M: "const", A: hs, B: behind, C: margin, D: longest})
		emit(MechEvent{Ev: "RMech", Case: c.ID, M: "hdr", A: staging})
	}
	var u readerUnderTest
	var dictBuf []byte
	have := false
	var prevRest func() int // how much of the previous segment's source is unread (caller-owned sources)
	prevVal := 0
	for si := range c.Segs {
		seg := &c.Segs[si]
		data, origin, err := seg.Stream.BuildWithOrigin()
		if err != nil {
			emit(REvent{Ev: "Crash", Case: c.ID, Panic: "harness: cannot build stream: " + err.Error()})
			return
		}
		var dict []byte
		if seg.Dict != nil {
			// one buffer serves every dictionary of the case that fits: the next dictionary replaces
			// the previous one in place (same address, same length where the lengths agree), as a
			// caller does whose dictionary is, say, the previous message
			nd := seg.Dict.Bytes()
			if cap(dictBuf) < len(nd) {
				dictBuf = make([]byte, len(nd))
			}
			dictBuf = dictBuf[:len(nd)]
			copy(dictBuf, nd)
			dict = dictBuf
		}
		multi := seg.Multi && !seg.Members
		// the oracles see what the source will really serve
		served := data
		if seg.Src.FailAt >= 0 && seg.Src.FailAt < len(served) {
			// the bytes after the failure point never arrive; verdicts are about the whole string
		}
		orc := oracleFor(c.Kind, served, dict, multi || c.Kind != "gzip")
		if c.Kind == "gzip" && !multi {
			orc = oracleFor(c.Kind, served, dict, false)
		}
		// what the encoders were asked to write (known when the stream comes straight from encoders)
		var payloads [][]byte
		appendedOnly := true
		for _, m := range seg.Stream.Mut {
			if m.Op != "append" && m.Op != "appendzero" {
				appendedOnly = false
			}
		}
		if len(seg.Stream.Enc) > 0 && seg.Stream.Synth == nil && seg.Stream.Hex == "" && appendedOnly {
			for _, e := range seg.Stream.Enc {
				payloads = append(payloads, e.Data.Bytes())
			}
		}
		nmem := 1
		if seg.Members {
			nmem = 1 << 30
		}
		var kept []GzHeader // member mode: the Header values a caller keeps across Reset
		memberBase, memberOut := 0, 0
		for m := 0; m < nmem; m++ {
			rec.given = 0
			rec.lastRaw = ""
			mdata := data
			morc := orc
			if seg.Members && m > 0 {
				// the next member starts where the previous one ended on the same source
				if memberBase >= len(data) {
					break
				}
				morc = oracleFor(c.Kind, data[memberBase:], dict, false)
			}
			refOut := morc.RefOut
			b := REvent{Ev: "Begin", Case: c.ID, Kind: c.Kind, Impl: c.Impl, Arch: arch, SrcKind: seg.Src.Kind,
				SLen: len(mdata) - memberBase, Released: len(mdata) - memberBase, After: seg.Src.After, DecAt: -1, MayGate: true,
				Ref: ROrc{morc.RefVerdict, len(morc.RefOut), morc.RefEnd, morc.RefDead}, Std: ROrc{morc.StdVerdict, morc.StdLen, 0, false},
				OracleSame: morc.Same, Cut: seg.Stream.Cut, Partial: seg.Stop > 0, Member: seg.Members,
				HdrCheck: seg.Hdr && len(morc.Hdrs) > 0, Group: c.Group, GClause: c.GClause, Ctor: "new"}
			if c.GroupLast && si < len(c.Segs)-1 {
				b.Group = ""
			}
			if b.GClause == "" {
				b.GClause = "NONE.group"
			}
			b.Failing = seg.Src.FailAt >= 0 || seg.Src.After == "error"
			b.Truncated = origin != nil && len(origin) > len(data)
			b.WantLen = -1
			if payloads != nil {
				var want []byte
				known := false
				switch {
				case seg.Members:
					if m < len(payloads) {
						want, known = payloads[m], true
					}
				case c.Kind == "gzip" && multi:
					if len(seg.Stream.Mut) == 0 { // nothing appended after the last member
						for _, p := range payloads {
							want = append(want, p...)
						}
						known = true
					}
				default:
					want, known = payloads[0], true
				}
				if known {
					hh := sha1.Sum(want)
					b.WantLen, b.WantDigest = len(want), hex.EncodeToString(hh[:])[:16]
				}
			}
			if have {
				b.Ctor = "reset"
			}
			var src io.Reader
			var ss *schedSource
			var rest func() int
			if seg.SameSrc && si > 0 && !(seg.Members && m > 0) {
				switch o := c.Segs[si-1].srcObj.(type) {
				case *bytes.Reader:
					o.Reset(mdata)
					src, ss, rest, b.Exact = o, nil, o.Len, true
				case *strings.Reader:
					o.Reset(string(mdata))
					src, ss, rest, b.Exact = o, nil, o.Len, true
				}
				if src != nil {
					seg.srcObj, seg.ss, seg.rest, seg.exact = src, ss, rest, b.Exact
					prevRest = nil // the harness itself has just re-targeted the earlier source
				}
			}
			if src != nil {
				// (the previous segment's object, re-targeted)
			} else if !(seg.Members && m > 0) {
				src, ss, rest, b.Exact = callerSource(seg.Src, mdata, rec)
				seg.srcObj, seg.ss, seg.rest, seg.exact = src, ss, rest, b.Exact
			} else {
				src, ss, rest, b.Exact = seg.srcObj, seg.ss, seg.rest, seg.exact
			}
			if seg.Src.After == "garbage" {
				b.DecAt, _ = decodableAt(c.Kind, morc, seg.Src.Garbage, multi)
			}
			if seg.Src.Released >= 0 && ss != nil {
				b.Released = seg.Src.Released
				b.DecAt, b.MayGate = decodableAt(c.Kind, morc, seg.Src.Released, multi)
			}
			// construct or reset (the constructor may already read from the source)
			emit(b)
			var cerr error
			ctorPanic := ""
			func() {
				defer func() {
					if x := recover(); x != nil {
						ctorPanic = panicString(x)
					}
				}()
				if !have {
					u, cerr = newReader(c.Impl, c.Kind, src, dict)
					if cerr == nil {
						have = true
					}
				} else {
					cerr = u.reset(src, dict)
				}
				if cerr == nil && u.gz != nil && (!seg.Multi || seg.Members) {
					u.gz.Multistream(false)
				}
			}()
			if ctorPanic != "" {
				rec.read(0, 0, "panic", "", true, ctorPanic)
				rec.flush()
				emit(REvent{Ev: "End", Case: c.ID, Rest: 0, Digest: "", HdrOK: true})
				return
			}
			h := sha1.New()
			endRead := func(cls string) {}
			_ = endRead
			if cerr != nil {
				// compress/gzip answers an empty input with io.EOF (an empty file) and everything else
				// that is cut short with io.ErrUnexpectedEOF: the class is logged as returned
				cls, det := errClassR(cerr, ss)
				rec.read(0, 0, cls, det, true, "")
			} else {
				reads := seg.Reads
				if len(reads) == 0 {
					reads = []int{4096}
				}
				buf := make([]byte, 0)
				calls, idle := 0, 0
				for {
					k := reads[calls%len(reads)]
					if k < 0 && seg.Stop == 0 {
						// the rest through io.Copy: it uses the Reader's WriteTo if it has one, Read otherwise
						cw := &copySink{}
						var cerr error
						pan := ""
						cw.onWrite = func(p []byte) {
							g := rec.given
							ok := g+len(p) <= len(refOut) && bytes.Equal(p, refOut[g:g+len(p)])
							h.Write(p)
							rec.read(maxInt(len(p), 1), len(p), "nil", "", ok, "")
						}
						func() {
							defer func() {
								if x := recover(); x != nil {
									pan = panicString(x)
								}
							}()
							_, cerr = io.Copy(cw, u.r)
						}()
						cls, det := "eof", ""
						if cerr != nil {
							cls, det = errClassR(cerr, ss)
						}
						if cls == "corrupt" && rec.lastRaw == "" {
							rec.lastRaw = cerr.Error()
						}
						if cls == "corrupt" && morc.RefVerdict == "uxeof" && morc.StdVerdict == "uxeof" && memberBase == 0 {
							// (as in the Read loop) both oracles ran out of input; "corrupt" is only wrong if the bytes can be completed
							if !provablyCompletable(c.Kind, data, dict, origin) {
								det += "|dead"
								rec.dead = true
							}
						}
						rec.read(1, 0, cls, det, true, pan)
						if pan == "" {
							p := make([]byte, 16)
							n2, e2 := 0, error(nil)
							func() {
								defer func() {
									if x := recover(); x != nil {
										pan = panicString(x)
									}
								}()
								n2, e2 = u.r.Read(p)
							}()
							c2, d2 := errClassR(e2, ss)
							rec.read(16, n2, c2, d2, n2 == 0, pan)
						}
						break
					}
					if k < 1 {
						k = 1
					}
					if cap(buf) < k {
						buf = make([]byte, k)
					}
					p := buf[:k]
					var n int
					var rerr error
					pan := ""
					func() {
						defer func() {
							if x := recover(); x != nil {
								pan = panicString(x)
							}
						}()
						n, rerr = u.r.Read(p)
					}()
					calls++
					ok := true
					if n > 0 && n <= k {
						g := rec.given
						ok = g+n <= len(refOut) && bytes.Equal(p[:n], refOut[g:g+n])
						h.Write(p[:n])
					} else if n > k || n < 0 {
						ok = false
					}
					cls, det := errClassR(rerr, ss)
					if cls == "corrupt" && rec.lastRaw == "" {
						rec.lastRaw = rerr.Error()
					}
					if cls == "corrupt" && morc.RefVerdict == "uxeof" && morc.StdVerdict == "uxeof" && memberBase == 0 {
						// both oracles ran out of input; "corrupt" is only wrong if the bytes can be completed
						if !provablyCompletable(c.Kind, data, dict, origin) {
							det += "|dead"
							rec.dead = true
						}
					}
					rec.read(k, n, cls, det, ok, pan)
					if pan != "" || rerr != nil {
						// one more Read: the result must be sticky
						if pan == "" {
							n2, e2 := 0, error(nil)
							func() {
								defer func() {
									if x := recover(); x != nil {
										pan = panicString(x)
									}
								}()
								n2, e2 = u.r.Read(p)
							}()
							c2, d2 := errClassR(e2, ss)
							rec.read(k, n2, c2, d2, n2 == 0, pan)
						}
						break
					}
					if n == 0 {
						idle++
						if idle > 1000 {
							break // never-ending (0, nil): reported by C03.terminates
						}
					} else {
						idle = 0
					}
					if seg.Stop > 0 && calls >= seg.Stop {
						break
					}
				}
			}
			rec.flush()
			e := REvent{Ev: "End", Case: c.ID, Seg: si, Digest: hex.EncodeToString(h.Sum(nil))[:16], HdrOK: true, WantRest: -1}
			if strings.HasPrefix(c.GClause, "C13.") && c.Impl != "std" {
				// "equivalent to a new Reader" includes what a corrupt-input error says (its offset)
				e.Digest += "|" + rec.lastRaw
			}
			if rest != nil {
				e.Rest = rest()
				if morc.RefVerdict == "eof" {
					e.WantRest = b.SLen - morc.RefEnd
				}
			}
			if b.HdrCheck && u.gzHdr != nil && m < len(orc.Hdrs) {
				e.HdrOK = sameGz(u.gzHdr(), orc.Hdrs[m])
			}
			emit(e)
			if prevRest != nil && m == 0 {
				// the source of the earlier segment belongs to the caller: using the Reader on another
				// source must not have touched it (C05: what follows the stream stays unread and intact)
				emit(REvent{Ev: "Prev", Case: c.ID, Rest: prevRest(), WantRest: prevVal})
			}
			if rest != nil && !seg.Members {
				prevRest, prevVal = rest, e.Rest
				if seg.Src.Kind != "bufio" && seg.Src.Kind != "bytesReader" && seg.Src.Kind != "bytesBuffer" && seg.Src.Kind != "stringsReader" {
					prevRest = nil
				}
			} else {
				prevRest = nil
			}
			if !seg.Members {
				break
			}
			if u.gzHdr != nil && rerrClassOf(rec) == "eof" {
				kept = append(kept, u.gzHdr())
			}
			// next member
			if morc.RefVerdict != "eof" || len(morc.MemberEnds) == 0 {
				break
			}
			memberBase += morc.MemberEnds[0]
			memberOut += morc.MemberOuts[0]
			if rest != nil && len(data)-rest() != memberBase {
				break // the source is not where the next member starts; C08.member_end has reported it
			}
		}
		if seg.Members && seg.Hdr && len(kept) > 0 {
			// the headers a caller kept while reading member by member must still be the members' own
			all := oracleFor(c.Kind, data, dict, true)
			ok := len(kept) <= len(all.Hdrs)
			for i := 0; ok && i < len(kept); i++ {
				ok = sameGz(kept[i], all.Hdrs[i])
			}
			emit(REvent{Ev: "Hdrs", Case: c.ID, Ok: ok, N: len(kept)})
		}
	}
}

func rerrClassOf(r *rrec) string { return r.lastErr }

// decodableAt: how many output bytes are decodable once the first p bytes
// have been delivered, and whether asking for more is legitimate at all.
func decodableAt(kind string, o *Oracle, p int, multi bool) (int, bool) {
	if o.RefVerdict == "eof" && p >= o.RefEnd {
		// everything is there: flate and zlib must finish without asking for more;
		// gzip in multistream mode legitimately looks for another member
		return len(o.RefOut), kind == "gzip" && multi
	}
	best := -1
	for _, s := range o.Syncs {
		if s.ByteEnd == p {
			best = s.OutLen
		}
	}
	return best, true
}
