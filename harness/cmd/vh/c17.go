package main

import (
	"encoding/json"
	"fmt"
	"math/rand"
	"os"
	"strings"
	"time"

	"verif/harness/tlc"
)

func init() { checks["C17"] = checkC17 }

func checkC17(c *Ctx) (int, error) {
	c.ev.Level = "exploration"
	c.ev.Assumptions = []string{"interleavings are enumerated (TLC, Instances) and enforced only at I/O boundaries - calls on the instance's own destination/source; the scheduler's choices inside compute sections cannot be enumerated and are sampled by free-running stress (GOMAXPROCS 1,2,4,16; with the race detector and without)",
		"the race detector's report is an observation of the executions that happened, not a proof of absence"}
	var scheds [][]int
	for _, nk := range [][2]int{{2, 4}, {3, 3}} {
		name := fmt.Sprintf("GEN_C17_%dx%d.cfg", nk[0], nk[1])
		cfg := fmt.Sprintf("SPECIFICATION Spec\nCONSTANTS\n  N = %d\n  K = %d\n  DevSharedPool = FALSE\nINVARIANTS C17_NoSharedWrite C17_SameAsSolo C17_NothingShared PrintSchedule\nCHECK_DEADLOCK FALSE\n", nk[0], nk[1])
		res, err := c.TLC(tlc.Run{Module: "Instances", Cfg: name, Workers: 1, Timeout: 5 * time.Minute, Inline: map[string]string{name: cfg}})
		if err != nil {
			return 0, err
		}
		if res.Violated != "" {
			return 0, fmt.Errorf("Instances/%s: %s violated at model level", name, res.Violated)
		}
		n := 0
		for _, p := range res.Printed {
			if s, ok := tlc.Unquote(p); ok && strings.HasPrefix(s, "BEH ") {
				var h []int
				if json.Unmarshal([]byte(s[4:]), &h) == nil {
					scheds = append(scheds, h)
					n++
				}
			}
		}
		c.logf("model Instances %dx%d: %d interleavings, %d distinct states", nk[0], nk[1], n, res.Distinct)
	}
	rng := rand.New(rand.NewSource(c.Seed))
	var raced, plain []Case
	byID := map[string]Case{}
	add := func(cs *CCase, race bool) {
		cs.Family = "conc"
		byID[cs.ID] = cs
		if race {
			raced = append(raced, cs)
		} else {
			plain = append(plain, cs)
		}
	}
	stride := 1
	for i := int(c.Seed) % stride; i < len(scheds); i += stride {
		s := scheds[i]
		n := 0
		for _, x := range s {
			if x > n {
				n = x
			}
		}
		cs := &CCase{ID: fmt.Sprintf("C17-sched-%d", i), Arch: c.Levels[i%len(c.Levels)], Schedule: s, Procs: []int{2, 4, 16}[i%3], Tag: fmt.Sprint(s)}
		for k := 0; k < n; k++ {
			cs.Insts = append(cs.Insts, randomInstance(rng, true))
		}
		add(cs, len(byID)%2 == 0)
		c.ev.nontrivial(cs.Tag + fmt.Sprint(i))
	}
	nStress := 16
	if c.Tier == "thorough" {
		nStress = 200
	}
	for i := 0; i < nStress; i++ {
		cs := &CCase{ID: fmt.Sprintf("C17-stress-%d", i), Arch: c.Levels[i%len(c.Levels)], Procs: []int{1, 2, 4, 16}[i%4], Rounds: 2, Tag: "free-running"}
		for k := 0; k < 16+rng.Intn(17); k++ {
			cs.Insts = append(cs.Insts, randomInstance(rng, i%2 == 0))
		}
		add(cs, i%2 == 0)
		c.ev.nontrivial(fmt.Sprintf("stress%d-%d", i, len(cs.Insts)))
	}
	// hammer cases: the life of pooled objects under load - every instance constructs or resets its
	// Reader/Writer thousands of times on a tiny stream while the others do the same (zlib instances
	// with preset dictionaries of one length but different content, gzip, flate; all levels)
	nHam, perHam := 4, 20000
	if c.Tier == "thorough" {
		nHam, perHam = 16, 100000
	}
	for i := 0; i < nHam; i++ {
		cs := &CCase{ID: fmt.Sprintf("C17-hammer-%d", i), Arch: c.Levels[i%len(c.Levels)], Procs: []int{16, 4, 8, 2}[i%4], Hammer: perHam, Tag: "hammer"}
		for k := 0; k < 8+4*(i%2); k++ {
			kind := []string{"zlib", "zlib", "gzip", "flate", "zlib"}[(k+i)%5]
			set := WSetting{Kind: kind, Level: []int{-1, 1, 6, -2, 2}[(k+2*i)%5], Window: 32768}
			if kind == "zlib" && k%5 != 4 {
				set.Dict = &DataSpec{Class: "text", Seed: int64(100 + k), Len: 64}
			}
			role := "reader"
			if k%4 == 3 {
				role = "writer"
				if set.Level == 6 {
					set.Level = 1 // (a delegated level allocates a megabyte per construction: too slow for this loop)
				}
			}
			cs.Insts = append(cs.Insts, InstSpec{Role: role, Set: set, Data: DataSpec{Class: "text", Seed: int64(k), Len: 40 + 10*k}})
		}
		if i%2 == 1 {
			cs.Hammer = 2000 // under the race detector everything is much slower, and a case has a time limit
		}
		add(cs, i%2 == 1)
		c.ev.nontrivial(fmt.Sprintf("hammer%d", i))
	}
	// cold starts: the very first use of the library in a process is concurrent (lazily initialised
	// shared state); each such case runs in a worker process of its own
	var cold []*CCase
	nCold := 6
	if c.Tier == "thorough" {
		nCold = 24
	}
	for i := 0; i < nCold; i++ {
		cs := &CCase{ID: fmt.Sprintf("C17-cold-%d", i), Family: "conc", Arch: c.Levels[i%len(c.Levels)], Procs: 16, Cold: true, Tag: "cold start"}
		for k := 0; k < 12; k++ {
			in := randomInstance(rng, true)
			if k < 6 && in.Role == "writer" {
				in.Set = accelSettings[(i+k)%len(accelSettings)]
			}
			cs.Insts = append(cs.Insts, in)
		}
		cold = append(cold, cs)
		byID[cs.ID] = cs
		c.ev.nontrivial(fmt.Sprintf("cold%d", i))
	}
	c.ev.Rule = fmt.Sprintf("every interleaving of the I/O steps of 2 instances x 4 steps (70) and 3 x 3 (1680) from TLC, enforced by gated destinations/sources, on random mixes of flate/gzip/zlib Writers (several streams per instance through Reset or new construction) and Readers (gzip with Latin-1 header fields) of all settings; cold-start cases whose first use of the library in the process is concurrent; plus %d free-running stress cases with 16-32 instances at GOMAXPROCS 1,2,4,16; half of all cases under the race detector; every instance's bytes and errors are compared with its solo run; distinct by (interleaving, instance mix)", nStress)
	for _, cs := range spread(raced) {
		c.ev.sample(map[string]interface{}{"schedule": cs.(*CCase).Schedule, "instances": len(cs.(*CCase).Insts), "procs": cs.(*CCase).Procs})
	}
	var all []Viol
	events := 0
	for _, part := range []struct {
		name  string
		cases []Case
		race  bool
	}{{"c17-race", raced, true}, {"c17", plain, false}} {
		if len(part.cases) == 0 {
			continue
		}
		if part.race && os.Getenv("VERIF_RACE_BIN") == "" {
			return 0, fmt.Errorf("race-enabled harness binary missing")
		}
		t0 := time.Now()
		trace, err := c.Execute(part.name, part.cases, part.race)
		if err != nil {
			return 0, err
		}
		viols, n, err := c.Validate("InstTrace", "TV_Inst.cfg", trace, true)
		if err != nil {
			return 0, err
		}
		events += n
		all = append(all, viols...)
		c.ev.Traces += len(part.cases)
		c.ev.Evaluations += len(part.cases)
		c.logf("%s: %d cases executed and validated (%.1fs), %d violating events", part.name, len(part.cases), time.Since(t0).Seconds(), len(viols))
	}
	for _, cs := range cold {
		trace, err := c.Execute("c17-"+cs.ID, []Case{cs}, true)
		if err != nil {
			return 0, err
		}
		viols, n, err := c.Validate("InstTrace", "TV_Inst.cfg", trace, true)
		if err != nil {
			return 0, err
		}
		events += n
		all = append(all, viols...)
		c.ev.Traces++
		c.ev.Evaluations++
	}
	c.logf("cold starts: %d cases, each in a process of its own under the race detector", len(cold))
	c.ev.Extra["race_detector_cases"] = len(raced) + len(cold)
	return c.Report(all, byID, "InstTrace", "TV_Inst.cfg")
}
