package main

import (
	"encoding/json"
	"fmt"
	"math/rand"
	"time"

	"verif/harness/synth"
)

type genDesc struct {
	Blocks []synth.BlockDesc `json:"blocks"`
	Fault  struct {
		Kind  string `json:"kind"`
		Block int    `json:"block"`
	} `json:"fault"`
	Verdict string `json:"verdict"`
}

// descriptors asks TLC (StreamGen, simulation mode) for stream descriptors
// and gives each a seed and token counts.
func (c *Ctx) descriptors(name string, faulty bool, maxBlocks, num int, rng *rand.Rand) ([]namedStream, []string, error) {
	cfg := fmt.Sprintf("SPECIFICATION Spec\nCONSTANTS\n  MaxBlocks = %d\n  Faulty = %v\nINVARIANTS PrintDesc TypeOK\nCHECK_DEADLOCK FALSE\n", maxBlocks, map[bool]string{true: "TRUE", false: "FALSE"}[faulty])
	behs, err := c.Simulate("StreamGen", name, map[string]string{name: cfg}, num, 2*maxBlocks+3, c.Seed)
	if err != nil {
		return nil, nil, err
	}
	var out []namedStream
	var verdicts []string
	for i, b := range behs {
		var g genDesc
		if err := json.Unmarshal([]byte(b), &g); err != nil {
			return nil, nil, err
		}
		d := synth.Desc{Seed: rng.Int63n(1 << 40), Blocks: g.Blocks}
		big := rng.Intn(12) == 0
		for k := range d.Blocks {
			n := pick(rng, []int{0, 1, 2, 5, 30, 300, 3000})
			if big {
				n = pick(rng, []int{9000, 20000, 40000})
			}
			if d.Blocks[k].Type == "stored" && n > 65535 {
				n = 65535
			}
			if d.Blocks[k].Toks == "empty" {
				n = 0
			}
			d.Blocks[k].N = n
		}
		nm := fmt.Sprintf("synth%d", i)
		if g.Fault.Kind != "none" {
			d.Fault = &synth.Fault{Kind: g.Fault.Kind, Block: g.Fault.Block}
			nm += "-" + g.Fault.Kind
		}
		if _, _, err := d.Build(); err != nil {
			continue // the synthesiser cannot realise this descriptor with these sizes (e.g. no illegal distance left)
		}
		out = append(out, namedStream{name: nm, kind: "flate", s: RStream{Synth: &SynthSpec{d}}})
		verdicts = append(verdicts, g.Verdict)
	}
	return out, verdicts, nil
}

// checkPrediction cross-checks the verdict StreamGen predicts for a
// descriptor with the two oracles (R4); a disagreement is a machinery problem.
func checkPrediction(st namedStream, verdict string) error {
	b, err := st.s.Build()
	if err != nil {
		return err
	}
	o := oracleFor("flate", b, nil, true)
	switch verdict {
	case "eof":
		if o.StdVerdict != "eof" || o.RefVerdict != "eof" || !o.Same {
			return fmt.Errorf("oracle disagreement on %s: StreamGen predicts a valid stream, compress/flate says %s, reference says %s", st.name, o.StdVerdict, o.RefVerdict)
		}
	default:
		if o.StdVerdict == "eof" {
			return fmt.Errorf("oracle disagreement on %s: StreamGen predicts rejection, compress/flate accepts", st.name)
		}
	}
	return nil
}

func descJSON(st namedStream) interface{} {
	if st.s.Synth != nil {
		return st.s.Synth.Desc
	}
	return st.name
}

// ---------------------------------------------------------------------------
// C02: every valid stream decodes as compress/flate decodes it

func init() { checks["C02"] = checkC02 }

func checkC02(c *Ctx) (int, error) {
	c.ev.Level = "model_checking"
	c.ev.Assumptions = []string{"block structures, code shapes, token classes and header encodings are drawn by TLC from StreamGen (seeded simulation over the legal descriptor space); concrete code lengths, symbols and payloads are seeded samples",
		"a descriptor's predicted verdict is cross-checked against compress/flate and the reference inflater before use",
		"the 'collide' streams (consecutive blocks whose different codes have code-length lists with the same 32-bit digest) guess at an implementation (digest, layout); they are not derived from the specification"}
	if err := c.readerModels(); err != nil {
		return 0, err
	}
	rng := rand.New(rand.NewSource(c.Seed))
	num, nEnc := 1500, 100
	if c.Tier == "thorough" {
		num, nEnc = 15000, 1500
	}
	var streams []namedStream
	for mb := 1; mb <= 3; mb++ {
		ds, vs, err := c.descriptors(fmt.Sprintf("GEN_C02_%d.cfg", mb), false, mb, num/3, rng)
		if err != nil {
			return 0, err
		}
		for i := range ds {
			if err := checkPrediction(ds[i], vs[i]); err != nil {
				return 0, err
			}
		}
		streams = append(streams, ds...)
	}
	// the legal edge case of a repeat run crossing the literal/distance boundary
	for i := 0; i < num/20; i++ {
		d := synth.RandomFaultDesc(rng, "crossRunEdge", i%2 == 0)
		streams = append(streams, namedStream{name: fmt.Sprintf("crossRunEdge%d", i), kind: "flate", s: RStream{Synth: &SynthSpec{d}}})
	}
	nSynth := len(streams)
	streams = append(streams, corpus(rng, "flate", nEnc, 300000)...)
	pp := 1
	if c.Tier == "thorough" {
		pp = 6
	}
	streams = append(streams, boundaryStreams(rng, pp, false)...)
	// consecutive dynamic blocks with different codes whose code-length lists have the same 32-bit digest
	streams = append(streams, collideStreams(rng, pp)...)
	// long streams of symbols with three- and four-bit codes: the output window fills dozens of
	// times, at every alignment relative to the multi-symbol table entries
	nLong := 5
	if c.Tier == "thorough" {
		nLong = 40
	}
	for li := 0; li < nLong; li++ {
		cl := []string{"digits", "alpha4", "alpha3", "text", "digits"}[li%5]
		streams = append(streams, namedStream{name: fmt.Sprintf("long-%s-%d", cl, li), kind: "flate",
			s: encStream("std", "flate", []int{-2, -2, 6, 1}[li%4], DataSpec{Class: cl, Seed: rng.Int63n(1 << 30), Len: 400000 + rng.Intn(800000) + li}, nil)})
	}
	var cases []*RCase
	// window-edge sweeps: every pattern one decoding-table lookup can yield (up to three literals,
	// literals + a length symbol) starting at every output offset around the two places where the
	// decode loops hand over - the window end and the vector loop's margin before it -, with the
	// compressed bytes arriving all at once, byte by byte, and in two pieces split at every
	// position near the pattern
	edges, err := edgeCases(c, "C02")
	if err != nil {
		return 0, err
	}
	cases = append(cases, edges...)
	// streams that go on for thousands of blocks without producing output, delivered byte by byte
	// and all at once; distance codes that fill the decoder's long-code table to its last entry
	var extra []namedStream
	for _, k := range []int{900, 5000, 20000} {
		b, want := manyEmptyBlocks(k)
		if o := oracleFor("flate", b, nil, true); o.StdVerdict != "eof" || o.RefVerdict != "eof" || len(o.RefOut) != len(want) {
			return 0, fmt.Errorf("oracle disagreement on %d empty blocks: std %s ref %s", k, o.StdVerdict, o.RefVerdict)
		}
		extra = append(extra, namedStream{name: fmt.Sprintf("emptyblocks%d", k), kind: "flate", s: RStream{Hex: hexOf(b)}})
	}
	for i := 0; i < 6; i++ {
		b, want, err := fullDistTableStream(rng)
		if err != nil {
			return 0, err
		}
		if o := oracleFor("flate", b, nil, true); o.StdVerdict != "eof" || o.RefVerdict != "eof" || len(o.RefOut) != len(want) {
			return 0, fmt.Errorf("oracle disagreement on the full distance table stream: std %s ref %s", o.StdVerdict, o.RefVerdict)
		}
		extra = append(extra, namedStream{name: fmt.Sprintf("fulldisttable%d", i), kind: "flate", s: RStream{Hex: hexOf(b)}})
	}
	for xi, st := range extra {
		for _, arch := range c.Levels {
			for si, ch := range [][]int{{1}, {0}, {5}} {
				cases = append(cases, &RCase{ID: fmt.Sprintf("C02-x%d-%d@A%d", xi, si, arch), Kind: "flate", Arch: arch, Tag: st.name,
					Segs: []RSeg{{Stream: st.s, Src: plainSrc(ch), Reads: [][]int{{4096}, {1 << 20}, {7}}[si], Multi: true}}})
			}
		}
		c.ev.nontrivial(st.name)
	}
	for i, st := range streams {
		for _, arch := range c.Levels {
			src := plainSrc(chunkSchedules[(i+arch)%len(chunkSchedules)])
			if i%3 == 0 {
				src = srcWith(RSource{Kind: "bytesReader"}, nil)
			}
			cs := &RCase{ID: fmt.Sprintf("C02-%d@A%d", i, arch), Kind: "flate", Arch: arch, Tag: st.name,
				Segs: []RSeg{{Stream: st.s, Src: src, Reads: readSchedules[(i+arch*2)%len(readSchedules)], Multi: true}}}
			if i%3 == 1 {
				// a reused Reader: another valid stream first (read completely, or abandoned after a few Reads)
				prev := streams[(i*7+3)%len(streams)]
				first := RSeg{Stream: prev.s, Src: srcWith(RSource{Kind: "bytesReader"}, nil), Reads: []int{4096}, Multi: true}
				if i%2 == 0 {
					first.Stop = 2
				}
				cs.Segs = []RSeg{first, cs.Segs[0]}
				cs.Tag += "|reused"
			}
			cases = append(cases, cs)
		}
		c.ev.nontrivial(st.name + fmt.Sprint(descJSON(st)))
	}
	c.ev.Extra["window_edge_cases"] = len(edges)
	c.ev.Rule = fmt.Sprintf("%d synthesised streams (1-3 blocks; stored/fixed/dynamic; code shapes flat, skewed to 15 bits, random, frequency-based, single-code and empty distance trees; token classes incl. overlapping copies, distance 32768, length 258 in both spellings; header options incl. the longest header the format allows) drawn by TLC from StreamGen, window-edge sweeps (lookup patterns x output offsets around the window end and the vector loop's margin x split points of the input), plus %d encoder-produced streams (compress/flate -2,0,1,6,9; fastgo -2,1,2; with Flush points) and streams whose blocks end at and around the 64 KiB / 96 KiB / 128 KiB output offsets where the inflater's window fills, each at every acceleration level with rotating Read-size and source schedules; distinct by descriptor", nSynth, nEnc)
	for _, st := range spread(streams) {
		c.ev.sample(descJSON(st))
	}
	return c.readerRun("c02", cases, true)
}

// ---------------------------------------------------------------------------
// C03: malformed input

func init() { checks["C03"] = checkC03 }

func checkC03(c *Ctx) (int, error) {
	c.ev.Level = "model_checking"
	c.ev.Assumptions = []string{"fault kinds x position (first / later block) x fresh / reused Reader are enumerated through StreamGen descriptors (TLC simulation, every kind present in every run); truncation at EVERY byte of the small streams; random and mutated byte strings are seeded samples",
		"'a byte a reference inflater also produces': the permissive RFC 1951 reference inflater of the harness; accepted final results are bounded below by compress/flate and above by the reference (DESIGN 5, C03)"}
	if err := c.readerModels(); err != nil {
		return 0, err
	}
	rng := rand.New(rand.NewSource(c.Seed))
	num, nMut, nTrunc := 1500, 6000, 8
	if c.Tier == "thorough" {
		num, nMut, nTrunc = 15000, 80000, 100
	}
	var streams []namedStream
	kinds := map[string]int{}
	for mb := 1; mb <= 3; mb++ {
		ds, vs, err := c.descriptors(fmt.Sprintf("GEN_C03_%d.cfg", mb), true, mb, num/3, rng)
		if err != nil {
			return 0, err
		}
		for i := range ds {
			if err := checkPrediction(ds[i], vs[i]); err != nil {
				return 0, err
			}
			kinds[ds[i].s.Synth.Fault.Kind]++
		}
		streams = append(streams, ds...)
	}
	for _, k := range synth.FaultKinds {
		if kinds[k] == 0 {
			for i := 0; i < 4; i++ {
				d := synth.RandomFaultDesc(rng, k, i%2 == 1)
				streams = append(streams, namedStream{name: "extra-" + k, kind: "flate", s: RStream{Synth: &SynthSpec{d}}})
			}
		}
	}
	for i := 0; i < 12; i++ {
		hx, err := noDistMatchHex(rng, i%3 != 0)
		if err != nil {
			return 0, err
		}
		st := namedStream{name: fmt.Sprintf("matchWithoutDistCodes%d", i), kind: "flate", s: RStream{Hex: hx}}
		b, _ := st.s.Build()
		if o := oracleFor("flate", b, nil, true); o.StdVerdict == "eof" || o.RefVerdict == "eof" {
			return 0, fmt.Errorf("oracle disagreement: %s is accepted (std %s, ref %s)", st.name, o.StdVerdict, o.RefVerdict)
		}
		streams = append(streams, st)
	}
	nFault := len(streams)
	// mutated valid streams
	base := corpus(rng, "flate", 30, 20000)
	for i := 0; i < 10; i++ {
		d := synth.RandomDesc(rng, 3, 400)
		base = append(base, namedStream{name: fmt.Sprintf("rd%d", i), kind: "flate", s: RStream{Synth: &SynthSpec{d}}})
	}
	for i := 0; i < nMut; i++ {
		st := base[rng.Intn(len(base))]
		var m []Mutation
		for k := 1 + rng.Intn(2); k > 0; k-- {
			switch rng.Intn(3) {
			case 0:
				m = append(m, Mutation{Op: "flip", Pos: rng.Intn(1 << 16)})
			case 1:
				m = append(m, Mutation{Op: "subst", Pos: rng.Intn(1 << 14), Val: rng.Intn(256)})
			default:
				m = append(m, Mutation{Op: "flip", Pos: rng.Intn(400)})
			}
		}
		st.s.Mut = m
		st.name += fmt.Sprintf("-mut%d", i)
		streams = append(streams, st)
	}
	// random bytes
	for i := 0; i < nMut/10; i++ {
		streams = append(streams, namedStream{name: fmt.Sprintf("random%d", i), kind: "flate", s: RStream{Hex: "00", Mut: []Mutation{{Op: "trunc", Pos: 0}, {Op: "append", N: 1 + rng.Intn(300), Seed: rng.Int63()}}}})
	}
	// truncation at every byte of small streams
	for i := 0; i < nTrunc; i++ {
		var st namedStream
		if i%2 == 0 {
			st = corpus(rng, "flate", 1, 3000)[0]
		} else {
			st = namedStream{name: fmt.Sprintf("td%d", i), kind: "flate", s: RStream{Synth: &SynthSpec{synth.RandomDesc(rng, 3, 200)}}}
		}
		b, err := st.s.Build()
		if err != nil {
			return 0, err
		}
		for p := 0; p < len(b) && p < 1500; p++ {
			t := st
			t.s.Mut = []Mutation{{Op: "trunc", Pos: p}}
			t.name = fmt.Sprintf("%s-cut%d", st.name, p)
			streams = append(streams, t)
		}
	}
	var cases []*RCase
	warm := encStream("std", "flate", 6, DataSpec{Class: "text", Seed: 99, Len: 60000}, nil)
	for i, st := range streams {
		arch := c.Levels[i%len(c.Levels)]
		if i < nFault {
			arch = -1 // every level
		}
		for _, a := range c.Levels {
			if arch >= 0 && a != arch {
				continue
			}
			seg := RSeg{Stream: st.s, Src: plainSrc(chunkSchedules[(i+a)%len(chunkSchedules)]), Reads: readSchedules[(i+a)%len(readSchedules)], Multi: true}
			cs := &RCase{ID: fmt.Sprintf("C03-%d@A%d", i, a), Kind: "flate", Arch: a, Tag: st.name, Segs: []RSeg{seg}}
			if i%2 == 1 {
				// reused Reader: tables and window of an earlier, valid stream are loaded
				first := RSeg{Stream: warm, Src: srcWith(RSource{Kind: "bytesReader"}, nil), Reads: []int{4096}, Multi: true}
				if i%4 == 3 {
					first.Stop = 3
				}
				cs.Segs = []RSeg{first, seg}
				cs.Tag += "|reused"
			}
			cases = append(cases, cs)
		}
		c.ev.nontrivial(st.name + fmt.Sprint(descJSON(st)) + fmt.Sprint(st.s.Mut))
	}
	c.ev.Extra["fault_kinds_covered"] = kinds
	c.ev.Rule = fmt.Sprintf("%d fault descriptors from StreamGen (17 fault kinds x first/later block, every acceleration level, fresh and reused Reader), %d mutated valid streams (bit flips, byte substitutions), %d random byte strings, truncation at every byte of %d small streams; rotating source/read schedules; distinct by stream", nFault, nMut, nMut/10, nTrunc)
	for _, st := range spread(streams) {
		c.ev.sample(descJSON(st))
	}
	return c.readerRun("c03", cases, true)
}

// ---------------------------------------------------------------------------
// C18: results do not depend on the acceleration level

func init() { checks["C18"] = checkC18 }

func checkC18(c *Ctx) (int, error) {
	c.ev.Level = "model_checking"
	c.ev.Assumptions = []string{"every input/schedule is executed at every acceleration level the host can run (recorded in the evidence) and the outcomes (bytes, digest, error class) are compared pairwise through the first level's outcome; inputs: valid (synthesised and encoder-made), faulty, mutated and truncated streams, seeded",
		"the compressor half of C18 ('at every level the output satisfies all other properties') is decided by the writer checks, which run every case at every level"}
	if len(c.Levels) < 2 {
		return 0, fmt.Errorf("this host can run only one acceleration level; C18 cannot be decided here")
	}
	if err := c.readerModels(); err != nil {
		return 0, err
	}
	rng := rand.New(rand.NewSource(c.Seed))
	num, nEnc, nMut := 700, 40, 600
	if c.Tier == "thorough" {
		num, nEnc, nMut = 8000, 800, 30000
	}
	var streams []namedStream
	for _, faulty := range []bool{false, true} {
		ds, vs, err := c.descriptors(fmt.Sprintf("GEN_C18_%v.cfg", faulty), faulty, 3, num, rng)
		if err != nil {
			return 0, err
		}
		for i := range ds {
			if err := checkPrediction(ds[i], vs[i]); err != nil {
				return 0, err
			}
		}
		streams = append(streams, ds...)
	}
	enc := corpusOf(rng, "flate", nEnc, 300000, true) // the input must not depend on the level it is decoded at
	streams = append(streams, enc...)
	streams = append(streams, boundaryStreams(rng, 1, true)...)
	for i := 0; i < nMut; i++ {
		st := enc[rng.Intn(len(enc))]
		switch rng.Intn(3) {
		case 0:
			st.s.Mut = []Mutation{{Op: "flip", Pos: rng.Intn(1 << 18)}}
		case 1:
			st.s.Mut = []Mutation{{Op: "trunc", Pos: rng.Intn(4000)}}
		default:
			st.s.Mut = []Mutation{{Op: "subst", Pos: rng.Intn(1 << 15), Val: rng.Intn(256)}}
		}
		st.name += fmt.Sprintf("-m%d", i)
		streams = append(streams, st)
	}
	var cases []*RCase
	// the window-edge sweeps (see C02): the vector decode loops hand over to the portable ones there
	edges, err := edgeCases(c, "C18")
	if err != nil {
		return 0, err
	}
	cases = append(cases, edges...)
	for i, st := range streams {
		src := plainSrc(chunkSchedules[i%len(chunkSchedules)])
		if i%2 == 0 {
			src = srcWith(RSource{Kind: "bufio", BufSize: bufioSizes[i%len(bufioSizes)]}, chunkSchedules[(i/2)%len(chunkSchedules)])
		}
		for _, arch := range c.Levels {
			cs := &RCase{ID: fmt.Sprintf("C18-%d@A%d", i, arch), Kind: "flate", Arch: arch, Tag: st.name, Group: fmt.Sprintf("C18-%d", i), GClause: "C18.same_outcome",
				Segs: []RSeg{{Stream: st.s, Src: src, Reads: readSchedules[i%len(readSchedules)], Multi: true}}}
			cases = append(cases, cs)
		}
		c.ev.nontrivial(st.name + fmt.Sprint(descJSON(st)) + fmt.Sprint(st.s.Mut))
	}
	c.ev.Extra["window_edge_cases"] = len(edges)
	c.ev.Rule = fmt.Sprintf("%d inputs (valid and faulty StreamGen descriptors, encoder streams, mutated/truncated streams) and the window-edge sweeps of C02 x all %d acceleration levels of this host, same source and Read schedule per input; group clause: the outcome at every level equals the outcome at the lowest level; distinct by input", len(streams), len(c.Levels))
	for _, st := range spread(streams) {
		c.ev.sample(descJSON(st))
	}
	n, err := c.readerRun("c18", cases, true)
	if err != nil || n > 0 {
		return n, err
	}
	// the compressor half: the same writer cases at every acceleration level
	cfg := genCfg(`"flate"`, []int{1, 2}, 3, 0, false, []string{"Write", "Flush"}, "")
	behs, err := c.Behaviours("WriterModel", "GEN_C18.cfg", map[string]string{"GEN_C18.cfg": cfg}, 10*time.Minute)
	if err != nil {
		return 0, err
	}
	per := 3
	if c.Tier == "thorough" {
		per = 12
	}
	wcases, err := c.histCases("C18w", behs, rng, accelSettings, per, []Op{{Op: "C"}}, nil)
	if err != nil {
		return 0, err
	}
	for i, cs := range wcases {
		if i%2 == 0 {
			cs.Data.Class = []string{"pruns", "text", "tokendense", "runs"}[(i/2)%4]
		}
	}
	return c.writerRun("c18w", c.spreadArch(wcases, true), false)
}

// edgeCases: see edgeStream.  quick: the patterns ending in the longest copies, offsets next to
// the two hand-over points of the first window fill; thorough: every pattern, the whole margin,
// both the first and the second fill.
func edgeCases(c *Ctx, prefix string) ([]*RCase, error) {
	pats := edgePatterns[:3]
	bases := []int{65536}
	var offs []int
	for d := -262; d <= -255; d++ {
		offs = append(offs, d)
	}
	for d := -3; d <= 2; d++ {
		offs = append(offs, d)
	}
	nSplit := 24
	if c.Tier == "thorough" {
		pats, bases, offs, nSplit = edgePatterns, []int{65536, 98304}, nil, 60
		for d := -282; d <= -250; d++ {
			offs = append(offs, d)
		}
		for d := -6; d <= 3; d++ {
			offs = append(offs, d)
		}
	}
	var cases []*RCase
	id := 0
	for _, base := range bases {
		for pi, pat := range pats {
			for li, d := range cross(offs, 3) {
				lead := li % 3
				tail := []string{"stored", "fixed", "stored", "final"}[(pi+d+lead+1000)%4]
				b, want, patByte, err := edgeStream(pat, base+d, lead, tail)
				if err != nil {
					return nil, err
				}
				if o := oracleFor("flate", b, nil, true); o.StdVerdict != "eof" || o.RefVerdict != "eof" || !o.Same || len(o.RefOut) != len(want) {
					return nil, fmt.Errorf("oracle disagreement on edge stream %s@%d: std %s ref %s", pat, base+d, o.StdVerdict, o.RefVerdict)
				}
				st := RStream{Hex: hexOf(b)}
				scheds := [][]int{{0}, {1}}
				for s := maxInt(1, patByte-4); s < len(b) && s < patByte-4+nSplit; s++ {
					scheds = append(scheds, []int{s, 1 << 20})
				}
				for si, ch := range scheds {
					for _, arch := range c.Levels {
						cs := &RCase{ID: fmt.Sprintf("%s-edge%d@A%d", prefix, id, arch), Kind: "flate", Arch: arch}
						if prefix == "C18" {
							cs.Group, cs.GClause = fmt.Sprintf("C18-edge%d", id), "C18.same_outcome"
						}
						cases = append(cases, cs)
						*cs = RCase{ID: cs.ID, Kind: "flate", Arch: arch, Group: cs.Group, GClause: cs.GClause,
							Tag:  fmt.Sprintf("edge-%s-%d%+d-lead%d-%s|%v", pat, base, d, lead, tail, ch),
							Segs: []RSeg{{Stream: st, Src: plainSrc(ch), Reads: [][]int{{70000}, {4096}, {1 << 20}}[si%3], Multi: true}}}
					}
					id++
				}
				c.ev.nontrivial(fmt.Sprintf("edge-%s-%d%+d-%d-%s", pat, base, d, lead, tail))
			}
		}
	}
	return cases, nil
}

// cross repeats every element n times in a row (index i of the result belongs to variant i%n).
func cross(a []int, n int) []int {
	var out []int
	for _, x := range a {
		for i := 0; i < n; i++ {
			out = append(out, x)
		}
	}
	return out
}
