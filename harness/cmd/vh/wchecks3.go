package main

import (
	"bufio"
	"encoding/json"
	"fmt"
	"math/rand"
	"os"
	"time"

	"verif/harness/tlc"
)

// pilotCalls runs histories fault-free in worker processes (a defective tree
// may corrupt memory, so never in the driver) and returns the number of
// destination calls each makes.
func (c *Ctx) pilotCalls(cases []*WCase) (map[string]int, error) {
	var ps []Case
	for _, b := range cases {
		p := *b
		p.Family = "writer"
		p.Set.Impl = "fastgo"
		p.FailAt = 0
		p.Pilot = true
		p.Arch = c.Host
		ps = append(ps, &p)
	}
	trace, err := c.Execute("pilot", ps, false)
	if err != nil {
		return nil, err
	}
	defer os.Remove(trace)
	f, err := os.Open(trace)
	if err != nil {
		return nil, err
	}
	defer f.Close()
	out := map[string]int{}
	sc := bufio.NewScanner(f)
	sc.Buffer(make([]byte, 1<<20), 1<<26)
	for sc.Scan() {
		var e WEvent
		if json.Unmarshal(sc.Bytes(), &e) == nil && e.Ev == "Pilot" {
			out[e.Case] = e.Calls
		}
	}
	return out, nil
}

// ---------------------------------------------------------------------------
// C14: failing destination

func init() { checks["C14"] = checkC14 }

func checkC14(c *Ctx) (int, error) {
	c.ev.Level = "fault_enumeration"
	c.ev.Assumptions = []string{"for every history the destination fails at EVERY call index 1..N, N = number of destination calls of the fault-free run (counted at the host's acceleration level, +1 so that the last index is included when a level makes one call more)",
		"histories exhaustive up to the stated length (TLC, WriterModel); payload bytes sampled; 'writes outside its own buffers' is observed through checkptr instrumentation of every unsafe pointer conversion in Go code and through crashes/heap corruption, not proved"}
	if err := c.writerModels(); err != nil {
		return 0, err
	}
	maxLen, per := 4, 2
	if c.Tier == "thorough" {
		maxLen, per = 5, 4
	}
	cfg := genCfg(`"flate"`, []int{1, 2}, maxLen, 0, false, []string{"Write", "Flush", "Close"}, "")
	behs, err := c.Behaviours("WriterModel", "GEN_C14.cfg", map[string]string{"GEN_C14.cfg": cfg}, 10*time.Minute)
	if err != nil {
		return 0, err
	}
	rng := rand.New(rand.NewSource(c.Seed))
	base, err := c.histCases("C14", behs, rng, allWSettings, per, nil, nil)
	if err != nil {
		return 0, err
	}
	var cases []*WCase
	maxN := 0
	pilot, err := c.pilotCalls(base)
	if err != nil {
		return 0, err
	}
	for _, b := range base {
		n, ok := pilot[b.ID]
		if !ok {
			n = 3 // the pilot run itself died: still try the first indices
		}
		if n > maxN {
			maxN = n
		}
		for k := 1; k <= n+1; k++ {
			cs := *b
			cs.ID = fmt.Sprintf("%s-k%d", b.ID, k)
			cs.FailAt = k
			cs.Partial = k%2 == 0
			cs.ErrKind = errKinds[(k/2)%len(errKinds)]
			cs.FullCount = k%3 == 0
			cases = append(cases, &cs)
			c.ev.nontrivial(histString(cs.Ops) + "|" + cs.Tag + fmt.Sprint(k))
		}
		// the fault-free run: the converse (all nil => complete valid stream)
		cs := *b
		cs.ID = b.ID + "-k0"
		cases = append(cases, &cs)
	}
	c.ev.Extra["max_destination_calls_in_a_history"] = maxN
	// many failed streams on one Writer, then a healthy one (what a failed stream leaves behind must not add up)
	soak := soakCases(c, rand.New(rand.NewSource(c.Seed+5)), "C14")
	cases = append(cases, soak...)
	c.ev.Extra["soak_cases"] = len(soak)
	c.ev.Rule = fmt.Sprintf("every history of %d calls over {Write(small|large), Flush, Close} (TLC, WriterModel) on %d of %d settings; for each, one case per destination call index k = 1..N+1 (the k-th call fails with a fresh error value, every second one after accepting half of its bytes) and the fault-free run; distinct by (history, setting, k)", maxLen, per, len(allWSettings))
	c.ev.Exhaustive = true
	for _, cs := range spread(cases) {
		c.ev.sample(map[string]interface{}{"history": histString(cs.Ops), "setting": cs.Tag, "failat": cs.FailAt})
	}
	return c.writerRun("c14", c.spreadArch(cases, false), true)
}

// ---------------------------------------------------------------------------
// C19: window bound

func init() { checks["C19"] = checkC19 }

func checkC19(c *Ctx) (int, error) {
	c.ev.Level = "model_checking"
	c.ev.Assumptions = []string{"the scaled match-finder model Lz77Window is exhaustive over all binary inputs of its bounded length; on the real code the distances are those recovered by the reference inflater from the emitted stream for seeded inputs placed at window/period/64 KiB-wrap thresholds",
		"every level accepted by the 4 KiB constructor is treated as subject to the bound"}
	mcN := 12
	if c.Tier == "thorough" {
		mcN = 14
	}
	for _, mw := range [][2]int{{8, 4}, {16, 2}} {
		name := fmt.Sprintf("MC_Lz77_M%d_W%d_N%d.cfg", mw[0], mw[1], mcN)
		res, err := c.TLC(tlc.Run{Module: "Lz77Window", Cfg: name, Timeout: 15 * time.Minute,
			Inline: map[string]string{name: lz77Cfg(mcN, mw[0], mw[1], "lt")}})
		if err != nil {
			return 0, err
		}
		if res.Violated != "" {
			return 0, fmt.Errorf("Lz77Window/%s: %s violated at model level", name, res.Violated)
		}
		c.logf("model Lz77Window/%s: %d distinct states, %.1fs", name, res.Distinct, res.Wall.Seconds())
	}
	u, mf, mc := 4, 1, 2
	n := 2
	if c.Tier == "thorough" {
		u, mf, mc, n = 5, 2, 3, 4
	}
	parts, err := c.partitions("GEN_C19.cfg", u, mf, mc)
	if err != nil {
		return 0, err
	}
	rng := rand.New(rand.NewSource(c.Seed))
	settings := []WSetting{
		{Kind: "flate", Level: 1, Window: 4096}, {Kind: "flate", Level: 2, Window: 4096}, {Kind: "flate", Level: -1, Window: 4096},
		{Kind: "flate", Level: 5, Window: 4096}, {Kind: "flate", Level: 9, Window: 4096}, {Kind: "flate", Level: -2, Window: 4096},
		{Kind: "flate", Level: 1, Window: 32768}, {Kind: "flate", Level: 2, Window: 32768}, {Kind: "flate", Level: -1, Window: 32768},
	}
	var cases []*WCase
	for rep := 0; rep < n; rep++ {
		for i, p := range parts {
			set := settings[(i+rep*4+int(c.Seed))%len(settings)]
			w := set.Window
			total := pick(rng, []int{65536 + 3*w + rng.Intn(5000), 131072 + w + rng.Intn(3000), 2*capOf(set) + 3 + rng.Intn(1000)})
			per := pick(rng, []int{w - 1, w, w + 1, w, w + 2, w - 2, 2 * w, 32767, 32768, 32769, w/2 + 1})
			d := DataSpec{Class: "period", Seed: rng.Int63n(1 << 30), Len: total, Period: per}
			if rng.Intn(4) == 0 {
				d = DataSpec{Class: pick2(rng, []string{"mixed", "text", "tokendense", "runs"}), Seed: rng.Int63n(1 << 30), Len: total}
			}
			b := boundaries(rng, set, u, total)
			cs := &WCase{ID: fmt.Sprintf("C19-%d-%d", rep, i), Set: set, Tag: settingTag(set), Data: d}
			cs.Ops = opsFor(b, total, p.A, p.F, rng, false)
			if i%2 == 1 {
				// a reused Writer: an earlier stream (abandoned or closed), then Reset
				pre := []Op{{Op: "W", N: pick(rng, []int{1, 300, 9000})}}
				if i%4 == 3 {
					pre = append(pre, Op{Op: "C"})
				}
				cs.Ops = append(append(pre, Op{Op: "R"}), cs.Ops...)
			}
			cases = append(cases, cs)
			c.ev.nontrivial(histString(cs.Ops) + "|" + cs.Tag + fmt.Sprint(per))
		}
	}
	c.ev.Rule = fmt.Sprintf("Write/Flush partitions from TLC (PartitionGen, %d units) over inputs of 64-135 KiB that repeat with period W-2..W+2, 2W, 32767..32769 (W = 4096 / 32768) or are mixed/text/token-dense, on the 4 KiB constructor at levels 1,2,-1,5,9,-2 and the ordinary constructor at 1,2,-1, at every acceleration level; every event's maximal distance is judged; distinct by (ops, setting, period)", u)
	for _, cs := range spread(cases) {
		c.ev.sample(map[string]interface{}{"history": histString(cs.Ops), "setting": cs.Tag, "data": cs.Data})
	}
	return c.writerRun("c19", c.spreadArch(cases, true), false)
}

func lz77Cfg(n, m, w int, test string) string {
	return fmt.Sprintf(`SPECIFICATION Spec
CONSTANTS
  N = %d
  M = %d
  W = %d
  L = 5
  Keep = 4
  TableSize = 2
  MinMatch = 2
  MaxLen = 3
  FirstCmp = 2
  TokMax = 3
  MaxFlush = 1
  WindowTest = "%s"
INVARIANTS C19_InWindow C01_Verified C01_Coverage MemSafe LenBounds AllConsumed
CHECK_DEADLOCK FALSE
`, n, m, w, test)
}

func pick2(rng *rand.Rand, xs []string) string { return xs[rng.Intn(len(xs))] }

// ---------------------------------------------------------------------------
// C20: bounded expansion, repeats are found

func init() { checks["C20"] = checkC20 }

func checkC20(c *Ctx) (int, error) {
	c.ev.Level = "exploration"
	c.ev.Assumptions = []string{"the bound is a numeric claim over all inputs: it is checked as a clause of WriterContract on every observed Close for seeded adversarial distributions (uniform, flattest histogram, Fibonacci-skewed, token-dense, sparse) and every period 1..64; TLC validates, it cannot explain the bound"}
	rng := rand.New(rand.NewSource(c.Seed))
	var cases []*WCase
	sizes := []int{0, 1, 2, 100, 4096, 65535, 65536, 65537, 131072, 200000, 262144}
	if c.Tier == "thorough" {
		sizes = append(sizes, 1<<20, 3<<20, 8450, 65794, 131072)
	}
	id := 0
	add := func(set WSetting, d DataSpec, split bool) {
		cs := &WCase{ID: fmt.Sprintf("C20-%d", id), Set: set, Tag: settingTag(set), Data: d}
		id++
		left := d.Len
		for split && left > 0 {
			k := minInt(left, 1+rng.Intn(d.Len/2+1))
			cs.Ops = append(cs.Ops, Op{Op: "W", N: k})
			left -= k
		}
		if !split {
			cs.Ops = append(cs.Ops, Op{Op: "W", N: d.Len})
		}
		cs.Ops = append(cs.Ops, Op{Op: "C"})
		cases = append(cases, cs)
		c.ev.nontrivial(fmt.Sprintf("%s|%s|%d|%d", cs.Tag, d.Class, d.Len, d.Period))
	}
	// reused Writers: a first stream of incompressible data that ends shortly behind a full token block
	// (32767 literals), Reset, then periodic data judged by the bound like a fresh Writer's
	for si, set := range accelSettings {
		if set.Level == -2 {
			continue
		}
		for k, extra := range []int{0, 1, 5000, 12000, 20000} {
			if c.Tier != "thorough" && (k+si)%2 == 1 {
				continue
			}
			n1, n2 := 32767+extra, pick(rng, []int{65536, 100000})
			cs := &WCase{ID: fmt.Sprintf("C20-reused-%d-%d", si, k), Set: set, Tag: settingTag(set) + "|reused",
				Data: DataSpec{Class: "period", Pre: "uniform", Seed: rng.Int63n(1 << 30), Len: n2, Period: 1 + rng.Intn(64)},
				Ops:  []Op{{Op: "W", N: n1}, {Op: "C"}, {Op: "R"}, {Op: "W", N: n2}, {Op: "C"}}}
			cases = append(cases, cs)
			c.ev.nontrivial(fmt.Sprintf("%s|reused|%d|%d", cs.Tag, n1, cs.Data.Period))
		}
	}
	for _, set := range accelSettings {
		for _, cl := range []string{"uniform", "nearuniform", "fib", "tokendense", "sparse", "alpha3", "dom50", "dom25"} {
			for _, n := range sizes {
				add(set, DataSpec{Class: cl, Seed: rng.Int63n(1 << 30), Len: n}, rng.Intn(2) == 0)
			}
		}
		if set.Level == -2 {
			continue
		}
		step := 4
		if c.Tier == "thorough" {
			step = 1
		}
		for p := 1 + int(c.Seed)%step; p <= 64; p += step {
			for _, n := range []int{65536, 100000} {
				add(set, DataSpec{Class: "period", Seed: rng.Int63n(1 << 30), Len: n, Period: p}, rng.Intn(2) == 0)
			}
			if c.Tier == "thorough" {
				add(set, DataSpec{Class: "period", Seed: rng.Int63n(1 << 30), Len: 1 << 20, Period: p}, false)
			}
		}
		// the same with periods spelled with two or three byte values
		for _, p := range []int{3, 16, 33, 48, 63, 64} {
			add(set, DataSpec{Class: "lowperiod", Seed: rng.Int63n(1 << 30), Len: []int{100000, 1 << 20}[p%2], Period: p}, false)
		}
	}
	c.ev.Rule = "accelerated settings (levels -2,-1,1,2 x 32K/4K window) x data classes {uniform, flattest histogram, Fibonacci-skewed, token-dense, sparse, 8-letter, one value just over 1/2 resp. 1/4 of the input} x sizes {0,1,2,100,4096,65535..65537,131072,200000,262144 (thorough: up to 3 MiB)}, and periods 1..64 x {65536, 100000 (thorough: 1 MiB)} for levels 1,2,-1, one or several Writes then Close, at every acceleration level; distinct by (setting, class, size, period)"
	for _, cs := range spread(cases) {
		c.ev.sample(map[string]interface{}{"history": histString(cs.Ops), "setting": cs.Tag, "data": cs.Data})
	}
	return c.writerRun("c20", c.spreadArch(cases, true), false)
}
