package main

import (
	"bytes"
	stdflate "compress/flate"
	stdgzip "compress/gzip"
	stdzlib "compress/zlib"
	"fmt"
	"hash/crc32"
	"io"
	"runtime/debug"
	"time"

	fgflate "github.com/intel/fastgo/compress/flate"
	fggzip "github.com/intel/fastgo/compress/gzip"
	fgzlib "github.com/intel/fastgo/compress/zlib"
)

func panicString(x interface{}) string {
	s := fmt.Sprint(x)
	if len(s) > 200 {
		s = s[:200]
	}
	if s == "" {
		s = "panic"
	}
	return s
}

// WSetting is one way of constructing a Writer.
type WSetting struct {
	Impl   string    `json:"impl"`   // "fastgo" | "std"
	Kind   string    `json:"kind"`   // "flate" | "gzip" | "zlib"
	Level  int       `json:"level"`  // -2..9
	Window int       `json:"window"` // 32768 | 4096 (4096: fastgo flate only)
	Dict   *DataSpec `json:"dict"`   // preset dictionary (flate, zlib)
	Hdr    *GzHeader `json:"hdr"`    // gzip header fields
}

func (s WSetting) accel() bool {
	if s.Dict != nil {
		return false
	}
	return s.Level == -2 || s.Level == -1 || s.Level == 1 || s.Level == 2
}

// Op is one API call of a history.
type Op struct {
	Op string `json:"op"` // "W" | "F" | "C" | "R" | "S"
	N  int    `json:"n"`  // bytes for W
}

// How a case hands its data to the Writer (WCase.Via): "" = Write; "copy" = io.Copy from a source
// that has no WriteTo and returns its last bytes together with io.EOF (a ReadFrom method of the
// Writer, if it has one, is then what runs); "string" = io.WriteString (a WriteString method).
// In every mode the buffer that was handed over is overwritten as soon as the call has returned:
// a Writer must not keep it.

// dataEOFReader returns its last bytes together with io.EOF.
type dataEOFReader struct {
	b []byte
	k int // piece size
}

func (r *dataEOFReader) Read(p []byte) (int, error) {
	n := len(p)
	if r.k > 0 && r.k < n {
		n = r.k
	}
	if n >= len(r.b) {
		n = copy(p, r.b)
		r.b = nil
		return n, io.EOF
	}
	copy(p, r.b[:n])
	r.b = r.b[n:]
	return n, nil
}

// WCase is one writer history to execute.
type WCase struct {
	ID        string   `json:"id"`
	Family    string   `json:"family"`
	Set       WSetting `json:"set"`
	Data      DataSpec `json:"data"` // epoch e uses Data with Seed+e; Len is the maximum needed
	Ops       []Op     `json:"ops"`
	FailAt    int      `json:"failat"` // the FailEpoch-th destination fails at its FailAt-th call (0 = never)
	FailEp    int      `json:"failep"`
	Partial   bool     `json:"partial"`   // the failing call accepts half of its bytes
	Via       string   `json:"via"`       // how Write data is handed over: "" | "copy" | "string" (see Op)
	ZeroValue bool     `json:"zerovalue"` // gzip: the Writer is a zero value (new(gzip.Writer)) made usable by Reset, not the result of a constructor
	ErrKind   string   `json:"errkind"`   // what the destination's error looks like (errKinds)
	FullCount bool     `json:"fullcount"` // the failing call takes all its bytes and returns the error with the full count
	Bulk      int      `json:"bulk"`      // instead of ops: this many one-shot streams of sizes at the output-piece boundaries (see execBulk)
	Soak      int      `json:"soak"`      // before the ops: this many streams that end in a destination failure, each followed by Reset
	SoakPat   int      `json:"soakpat"`   // what a failed stream looks like (0..3) ...
	SoakAt    int      `json:"soakat"`    // ... and at which destination call it fails
	Shadow    []Op     `json:"shadow"`    // a second, fresh Writer of the same setting runs these on the last epoch's data
	Cmp       string   `json:"cmp"`       // "C09" | "C12": compare the bytes of the two Writers
	Arch      int      `json:"arch"`      // acceleration level this case is meant to run at (filled by the driver)
	Tag       string   `json:"tag"`       // free text for evidence / signatures
	CountOnly bool     `json:"countonly"` // do not project, only count destination calls (fault-free pilot run)
	Ctor      string   `json:"ctor"`      // non-empty: a constructor-acceptance case for this constructor
	Mech      bool     `json:"mech"`      // record the compressor's mechanism events (hook) as well
	Pilot     bool     `json:"pilot"`     // fault-free pilot run that only counts destination calls
}

type writerAPI interface {
	Write([]byte) (int, error)
	Flush() error
	Close() error
}

type wUnderTest struct {
	w     writerAPI
	reset func(io.Writer)
}

func newWriter(set WSetting, dst io.Writer, dict []byte) (u wUnderTest, err error) {
	switch set.Impl + "/" + set.Kind {
	case "fastgo/flate":
		var w *fgflate.Writer
		switch {
		case dict != nil:
			w, err = fgflate.NewWriterDict(dst, set.Level, dict)
		case set.Window == 4096:
			w, err = fgflate.NewWriterwWith4KWindow(dst, set.Level)
		default:
			w, err = fgflate.NewWriter(dst, set.Level)
		}
		if err != nil {
			return u, err
		}
		return wUnderTest{w, func(d io.Writer) { w.Reset(d) }}, nil
	case "std/flate":
		var w *stdflate.Writer
		if dict != nil {
			w, err = stdflate.NewWriterDict(dst, set.Level, dict)
		} else {
			w, err = stdflate.NewWriter(dst, set.Level)
		}
		if err != nil {
			return u, err
		}
		return wUnderTest{w, func(d io.Writer) { w.Reset(d) }}, nil
	case "fastgo/gzip":
		w, err := fggzip.NewWriterLevel(dst, set.Level)
		if err != nil {
			return u, err
		}
		if h := set.Hdr; h != nil {
			w.Name, w.Comment, w.Extra, w.OS = h.Name, h.Comment, h.Extra, h.OS
			if h.ModTime != 0 {
				w.ModTime = time.Unix(h.ModTime, 0)
			}
		}
		return wUnderTest{w, func(d io.Writer) { w.Reset(d) }}, nil
	case "std/gzip":
		w, err := stdgzip.NewWriterLevel(dst, set.Level)
		if err != nil {
			return u, err
		}
		if h := set.Hdr; h != nil {
			w.Name, w.Comment, w.Extra, w.OS = h.Name, h.Comment, h.Extra, h.OS
			if h.ModTime != 0 {
				w.ModTime = time.Unix(h.ModTime, 0)
			}
		}
		return wUnderTest{w, func(d io.Writer) { w.Reset(d) }}, nil
	case "fastgo/zlib":
		w, err := fgzlib.NewWriterLevelDict(dst, set.Level, dict)
		if err != nil {
			return u, err
		}
		return wUnderTest{w, func(d io.Writer) { w.Reset(d) }}, nil
	case "std/zlib":
		w, err := stdzlib.NewWriterLevelDict(dst, set.Level, dict)
		if err != nil {
			return u, err
		}
		return wUnderTest{w, func(d io.Writer) { w.Reset(d) }}, nil
	}
	return u, fmt.Errorf("unknown setting %s/%s", set.Impl, set.Kind)
}

// WEvent is one line of a writer trace.
type WEvent struct {
	Ev    string `json:"ev"`
	Case  string `json:"case"`
	N     int    `json:"n"`
	Ret   int    `json:"ret"`
	Err   string `json:"err"`
	Panic string `json:"panic"`
	Calls int    `json:"calls"`
	Bytes int    `json:"bytes"`
	Down  bool   `json:"down"`
	After int    `json:"after"`
	Ref   Proj   `json:"ref"`
	Std   Dec    `json:"std"`
	Fg    Dec    `json:"fg"`
	// Begin
	Kind   string `json:"kind"`
	Impl   string `json:"impl"`
	Level  int    `json:"level"`
	Window int    `json:"window"`
	Accel  bool   `json:"accel"`
	Period int    `json:"period"`
	Arch   int    `json:"arch"`
	// Cmp
	What  string `json:"what"`
	Equal bool   `json:"equal"`
	La    int    `json:"la"`
	Lb    int    `json:"lb"`
	// Ctor
	Ctor   string `json:"ctor"`
	Stderr string `json:"stderr"`
}

// MechEvent is one hook event of the compressor (validated by DynMechTrace, ignored by WriterTrace).
type MechEvent struct {
	Ev   string `json:"ev"`
	Case string `json:"case"`
	M    string `json:"m"`
	A    int    `json:"a"`
	B    int    `json:"b"`
	C    int    `json:"c"`
	D    int    `json:"d"`
}

// firstEpochLen: bytes written before the first Reset.
func firstEpochLen(ops []Op) (n int) {
	for _, o := range ops {
		if o.Op == "R" || o.Op == "S" {
			break
		}
		if o.Op == "W" {
			n += o.N
		}
	}
	return n
}

func epochData(d DataSpec, ep int) DataSpec {
	d.Seed += int64(ep) * 1000003
	if d.Pre != "" && ep == 0 {
		d.Class = d.Pre
	}
	d.Pre = ""
	return d
}

// runOps drives one Writer through ops; emit receives the events (nil = silent).
func runWriterOps(c *WCase, ops []Op, startEpoch int, failing bool, emit func(WEvent), project bool) (final *Sink, err error) {
	var dict []byte
	if c.Set.Dict != nil {
		dict = c.Set.Dict.Bytes()
	}
	epoch := startEpoch
	newSink := func() *Sink {
		s := &Sink{}
		if failing && c.FailAt > 0 && epoch == c.FailEp {
			s.FailAt, s.Partial, s.ErrKind, s.Full = c.FailAt, c.Partial, c.ErrKind, c.FullCount
		}
		return s
	}
	sink := newSink()
	hdr := c.Set.Hdr
	if startEpoch > 0 {
		hdr = nil // the fresh Writer a reset one is compared with has the constructor's default header
	}
	// with a preset dictionary the payload begins with the dictionary's end and its beginning
	// (otherwise nothing would ever refer into the dictionary)
	echo := func(d []byte) []byte {
		if len(dict) >= 64 && len(d) >= 200 {
			k := minInt(len(d)/2, minInt(3000, len(dict)/2))
			copy(d, dict[len(dict)-k:])
			copy(d[k:], dict[:k])
		}
		return d
	}
	data := echo(epochData(c.Data, epoch).Bytes())
	pos := 0
	var u wUnderTest
	var cerr error
	var cpan string
	func() {
		defer func() {
			if x := recover(); x != nil {
				cpan = panicString(x)
			}
		}()
		set := c.Set
		set.Hdr = hdr
		if c.ZeroValue && set.Kind == "gzip" {
			u, cerr = zeroValueGzip(set.Impl, sink)
			return
		}
		if dict != nil && set.Kind == "flate" {
			// compress/flate takes what it needs of the dictionary in the constructor (its
			// documentation does not ask the caller to keep the slice): the caller's copy is
			// overwritten right after
			tmp := append([]byte{}, dict...)
			u, cerr = newWriter(set, sink, tmp)
			// ... with the payload that is about to be written: a Writer that reads the slice only
			// later would find the payload in its "dictionary" and refer to it
			for i := range tmp {
				tmp[i] = byte(i * 7)
				if len(data) > 0 {
					tmp[len(tmp)-1-i] = data[(len(data)-1-i%len(data)+len(data))%len(data)]
				}
			}
			return
		}
		u, cerr = newWriter(set, sink, dict)
	}()
	if cpan != "" {
		return sink, fmt.Errorf("constructor panicked: %s", cpan)
	}
	if cerr != nil {
		return sink, cerr
	}
	if failing && startEpoch == 0 && c.Soak > 0 {
		// a pooled Writer's life: many streams that die with their destination, each followed by
		// Reset; whatever a failed stream leaves behind must not add up
		ev := WEvent{Ev: "Soak", Case: c.ID, N: c.Soak}
		junk := DataSpec{Class: "text", Seed: 4242, Len: 200000}.Bytes()
		func() {
			defer func() {
				if x := recover(); x != nil {
					ev.Panic = panicString(x)
				}
			}()
			for i := 0; i < c.Soak; i++ {
				fs := &Sink{FailAt: maxInt(1, c.SoakAt)}
				u.reset(fs)
				var errs []error
				call := func(e error) { errs = append(errs, e) }
				switch c.SoakPat % 4 {
				case 0:
					_, e := u.w.Write(junk[i%1000 : i%1000+300])
					call(e)
					call(u.w.Flush())
				case 1:
					_, e := u.w.Write(junk[:capOf(c.Set)+5000])
					call(e)
					call(u.w.Flush())
				case 2:
					_, e := u.w.Write(junk[i%1000 : i%1000+300])
					call(e)
					call(u.w.Close())
				default:
					_, e := u.w.Write(junk[:9000])
					call(e)
					call(u.w.Flush())
					_, e = u.w.Write(junk[9000:12000])
					call(e)
					call(u.w.Flush())
				}
				if fs.Failed {
					seen := false
					for _, e := range errs {
						if e == fs.Err {
							seen = true
						}
					}
					if !seen || fs.After > 0 {
						ev.Ret++ // the failure was not reported, or the destination was called again
					}
				}
			}
			u.reset(sink)
		}()
		if emit != nil {
			emit(ev)
		}
	}
	for _, op := range ops {
		if op.Op == "R" || op.Op == "S" {
			epoch++
			if op.Op == "S" && !sink.Failed {
				// Reset onto the SAME destination object (the next member of the same file): what
				// is in it stays, the new stream starts behind it
				sink.Base = len(sink.Buf)
			} else {
				sink = newSink()
			}
			hdr = nil // gzip: Reset restores the default header, as NewWriterLevel does
			data = echo(epochData(c.Data, epoch).Bytes())
			pos = 0
			pan := ""
			func() {
				defer func() {
					if x := recover(); x != nil {
						pan = panicString(x)
					}
				}()
				u.reset(sink)
			}()
			if emit != nil {
				emit(WEvent{Ev: "Reset", Case: c.ID, Panic: pan})
			}
			continue
		}
		ev := WEvent{Case: c.ID}
		c0, b0 := sink.Calls, len(sink.Buf)
		func() {
			defer func() {
				if x := recover(); x != nil {
					ev.Panic = panicString(x)
					if os := debug.Stack(); len(os) > 0 && false {
						_ = os
					}
				}
			}()
			var e error
			switch op.Op {
			case "W":
				ev.Ev = "Write"
				n := op.N
				if pos+n > len(data) {
					n = len(data) - pos
				}
				ev.N = n
				chunk := append([]byte{}, data[pos:pos+n]...)
				pos += n // content is compared against the bytes offered
				via := c.Via
				if n == 0 {
					via = "" // (io.Copy of nothing calls nothing: an empty Write is an empty Write)
				}
				switch via {
				case "copy":
					var m int64
					m, e = io.Copy(u.w, struct{ io.Reader }{&dataEOFReader{b: chunk, k: 5000 + n%3000}})
					ev.Ret = int(m)
				case "string":
					ev.Ret, e = io.WriteString(u.w, string(chunk))
				default:
					ev.Ret, e = u.w.Write(chunk)
				}
				for i := range chunk {
					chunk[i] ^= 0x5a // the buffer belongs to the caller again
				}
			case "F":
				ev.Ev = "Flush"
				e = u.w.Flush()
			case "C":
				ev.Ev = "Close"
				e = u.w.Close()
			}
			ev.Err = errClassW(e, sink)
		}()
		if ev.Panic != "" && ev.Err == "" {
			ev.Err = "panic"
		}
		ev.Calls, ev.Bytes = sink.Calls-c0, len(sink.Buf)-b0
		ev.Down, ev.After = sink.Failed, sink.After
		if emit != nil {
			if project {
				ev.Ref = projectRef(c.Set.Kind, sink.Cur(), data[:pos], dict, hdr)
				if ev.Ev != "Write" {
					ev.Std = projectLib("std", c.Set.Kind, sink.Cur(), data[:pos], dict, hdr)
				}
				if ev.Ev == "Close" {
					if c.Set.Impl == "std" {
						// R3 validates the contract against the standard library's Writer; what fastgo's
						// Reader makes of its output is not part of that (it is decided by the Reader checks)
						ev.Fg = ev.Std
					} else {
						ev.Fg = projectLib("fastgo", c.Set.Kind, sink.Cur(), data[:pos], dict, hdr)
					}
				}
			}
			emit(ev)
		}
	}
	return sink, nil
}

// execWriterCase runs a case and emits its trace.
func execWriterCase(c *WCase, arch int, emit func(interface{})) {
	if c.Ctor != "" {
		execCtorCase(c, emit)
		return
	}
	if c.Pilot {
		// fault-free pilot run: only the number of destination calls is wanted
		total := 0
		runWriterOps(c, c.Ops, 0, false, func(e WEvent) { total += e.Calls }, false)
		emit(WEvent{Ev: "Pilot", Case: c.ID, Calls: total})
		return
	}
	period := 0
	if c.Data.Class == "period" && (c.Data.Pre == "" || firstEpochLen(c.Ops) < 65536) {
		// (with Pre the first epoch is not periodic: the C20.repeats clause, which judges streams of
		// 64 KiB and more, may apply to the case only if the first epoch is shorter)
		period = c.Data.Period
	}
	if c.Data.Class == "lowperiod" {
		period = 1000 + c.Data.Period // (WriterContract: a period over two or three byte values)
	}
	kind := c.Set.Kind
	if kind == "gzip" && !hdrEncodable(c.Set.Hdr) {
		kind = "gzip-unencodable-header" // (WriterContract.BadHdr)
	}
	emit(WEvent{Ev: "Begin", Case: c.ID, Kind: kind, Impl: c.Set.Impl, Level: c.Set.Level,
		Window: c.Set.Window, Accel: c.Set.accel(), Period: period, Arch: arch})
	if c.Bulk > 0 && c.Set.Kind != "flate" {
		execBulkChecksum(c, emit)
		return
	}
	if c.Bulk > 0 {
		execBulk(c, emit)
		return
	}
	if c.Mech && c.Set.Impl == "fastgo" {
		// mechanism events of the level 1/2 compressor, interleaved with the API events
		fgflate.VerifSetCompressorTrace(func(ev string, a, b, cc, d int) {
			emit(MechEvent{Ev: "Mech", Case: c.ID, M: ev, A: a, B: b, C: cc, D: d})
		})
		defer fgflate.VerifSetCompressorTrace(nil)
	}
	em := func(e WEvent) { emit(e) }
	if c.CountOnly {
		em = nil // only the pair comparison is recorded
	}
	main, err := runWriterOps(c, c.Ops, 0, true, em, true)
	if err != nil {
		// a setting the generator believed valid was refused: not a trace the contract can judge
		emit(WEvent{Ev: "Crash", Case: c.ID, Panic: "constructor: " + err.Error()})
		return
	}
	if c.Cmp != "" {
		resets := 0
		for _, o := range c.Ops {
			if o.Op == "R" || o.Op == "S" {
				resets++
			}
		}
		sh, err := runWriterOps(c, c.Shadow, resets, false, nil, false)
		if err != nil {
			return
		}
		emit(WEvent{Ev: "Cmp", Case: c.ID, What: c.Cmp, Equal: bytes.Equal(main.Cur(), sh.Cur()), La: len(main.Cur()), Lb: len(sh.Cur())})
	}
}

func errStr(err error) string {
	if err == nil {
		return "nil"
	}
	return "error"
}

// execCtorCase tries every level -4..11 on a constructor of fastgo and on the
// standard library's constructor of the same name.
func execCtorCase(c *WCase, emit func(interface{})) {
	dict := []byte("preset dictionary")
	for level := -4; level <= 11; level++ {
		ev := WEvent{Ev: "Ctor", Case: c.ID, Ctor: c.Ctor, Level: level}
		func() {
			defer func() {
				if x := recover(); x != nil {
					ev.Panic = panicString(x)
				}
			}()
			var e1, e2 error
			switch c.Ctor {
			case "flate.NewWriter":
				_, e1 = fgflate.NewWriter(io.Discard, level)
				_, e2 = stdflate.NewWriter(io.Discard, level)
			case "flate.NewWriterDict":
				_, e1 = fgflate.NewWriterDict(io.Discard, level, dict)
				_, e2 = stdflate.NewWriterDict(io.Discard, level, dict)
			case "gzip.NewWriterLevel":
				_, e1 = fggzip.NewWriterLevel(io.Discard, level)
				_, e2 = stdgzip.NewWriterLevel(io.Discard, level)
			case "zlib.NewWriterLevel":
				_, e1 = fgzlib.NewWriterLevel(io.Discard, level)
				_, e2 = stdzlib.NewWriterLevel(io.Discard, level)
			case "zlib.NewWriterLevelDict":
				_, e1 = fgzlib.NewWriterLevelDict(io.Discard, level, dict)
				_, e2 = stdzlib.NewWriterLevelDict(io.Discard, level, dict)
			}
			ev.Err, ev.Stderr = errStr(e1), errStr(e2)
		}()
		emit(ev)
	}
}

// hdrEncodable: can RFC 1952 express these header fields (compress/gzip's rules)?
func hdrEncodable(h *GzHeader) bool {
	if h == nil {
		return true
	}
	if len(h.Extra) > 0xffff {
		return false
	}
	for _, s := range []string{h.Name, h.Comment} {
		for _, r := range s {
			if r == 0 || r > 0xff {
				return false
			}
		}
	}
	return true
}

// badHeaders: header values that cannot be encoded.
func badHeader(i int) *GzHeader {
	switch i % 5 {
	case 0:
		return &GzHeader{Extra: make([]byte, 65536), OS: 255}
	case 1:
		return &GzHeader{Name: "a\x00b", OS: 255}
	case 2:
		return &GzHeader{Comment: "snow \u2603", OS: 255}
	case 3:
		return &GzHeader{Name: "ok", Comment: "nul at the end\x00", Extra: []byte{1, 2, 3}, OS: 255}
	}
	return &GzHeader{Name: "caf\u00e9", Comment: "\u0100", OS: 255}
}

// execBulk: very many short one-shot streams (Write, Close) whose compressed size is within a
// few bytes of a multiple of the encoder's 8 KiB output piece - the place where the token and
// byte encoders hand a full piece to the destination and where the last bits of the stream are
// flushed.  What can go wrong there depends on the exact bit position the stream ends at (one
// stream in tens of thousands), so the streams are not logged one by one: each is decoded with
// compress/flate and compared in the worker, and one summary event is validated (ret = number of
// streams that panicked, were refused or did not round-trip; err = the first of them).
func execBulk(c *WCase, emit func(interface{})) {
	ev := WEvent{Ev: "Bulk", Case: c.ID, N: c.Bulk, Err: "nil"}
	set := c.Set
	var dict []byte
	// (the Writer is reused through Reset for fifteen streams out of sixteen: allocating its
	// buffers dominates the cost of a short stream)
	var u wUnderTest
	var buf bytes.Buffer
	uses := 0
	one := func(data []byte) (out []byte, pan string, err error) {
		defer func() {
			if x := recover(); x != nil {
				pan = panicString(x)
				uses = 0 // a Writer that panicked is not used again
			}
		}()
		buf.Reset()
		if uses%16 == 0 {
			var e error
			if u, e = newWriter(set, &buf, dict); e != nil {
				return nil, "", e
			}
		} else {
			u.reset(&buf)
		}
		uses++
		if _, e := u.w.Write(data); e != nil {
			uses = 0
			return nil, "", e
		}
		if e := u.w.Close(); e != nil {
			uses = 0
			return nil, "", e
		}
		return append([]byte{}, buf.Bytes()...), "", nil
	}
	// the sizes whose compressed form ends within a few bytes of a piece boundary (found by a pilot)
	var sizes []int
	for _, centre := range []int{8192, 16384} {
		for n := centre - 400; n < centre+40; n++ {
			out, pan, err := one(DataSpec{Class: c.Data.Class, Seed: c.Data.Seed, Len: n}.Bytes())
			if pan != "" || err != nil {
				continue
			}
			if d := len(out) % 8192; d >= 8192-14 || d <= 10 {
				sizes = append(sizes, n)
			}
		}
	}
	if len(sizes) == 0 {
		sizes = []int{8150, 8155, 8160}
	}
	ev.Calls = len(sizes)
	for t := 0; t < c.Bulk; t++ {
		n := sizes[t%len(sizes)]
		data := DataSpec{Class: c.Data.Class, Seed: c.Data.Seed + int64(t)*7919, Len: n}.Bytes()
		out, pan, err := one(data)
		bad := ""
		switch {
		case pan != "":
			bad = "panic: " + pan
			if ev.Panic == "" {
				ev.Panic = pan
			}
		case err != nil:
			bad = "error: " + err.Error()
		default:
			got, derr := io.ReadAll(stdflate.NewReader(bytes.NewReader(out)))
			if derr != nil || !bytes.Equal(got, data) {
				bad = fmt.Sprintf("no round trip (decoder: %v, %d of %d bytes)", derr, len(got), len(data))
			}
		}
		if bad != "" {
			ev.Ret++
			if ev.Err == "nil" {
				ev.Err = fmt.Sprintf("stream %d (len %d, seed %d): %s", t, n, c.Data.Seed+int64(t)*7919, bad)
			}
		}
	}
	emit(ev)
}

// execBulkChecksum: the trailer checksums of the containers at the one place where every
// implementation of them has its pitfall - Adler-32 defers its modulo for at most 5552 bytes
// (the largest count for which 32-bit sums of 0xff bytes cannot overflow), CRC-32 works in
// blocks of 4 to 64 bytes.  Streams of 0xff / 0xfe bytes written with two Write calls whose sizes
// sweep the neighbourhood of 5552 (second) and the running sums (first), read back with the
// standard library's reader, which verifies the trailer; one summary event.
func execBulkChecksum(c *WCase, emit func(interface{})) {
	ev := WEvent{Ev: "Bulk", Case: c.ID, Err: "nil"}
	set := c.Set
	ones := bytes.Repeat([]byte{0xff}, 140000)
	for i := 1; i < len(ones); i += 97 {
		if c.Data.Seed%2 == 0 {
			ones[i] = 0xfe
		}
	}
	var buf bytes.Buffer
	run := func(sizes ...int) {
		ev.N++
		bad := ""
		func() {
			defer func() {
				if x := recover(); x != nil {
					bad = "panic: " + panicString(x)
					if ev.Panic == "" {
						ev.Panic = panicString(x)
					}
				}
			}()
			buf.Reset()
			u, err := newWriter(set, &buf, nil)
			if err != nil {
				bad = "constructor: " + err.Error()
				return
			}
			total := 0
			for _, n := range sizes {
				if _, err := u.w.Write(ones[total : total+n]); err != nil {
					bad = "Write: " + err.Error()
					return
				}
				total += n
			}
			if err := u.w.Close(); err != nil {
				bad = "Close: " + err.Error()
				return
			}
			var r io.Reader
			if set.Kind == "gzip" {
				r, err = stdgzip.NewReader(bytes.NewReader(buf.Bytes()))
			} else {
				r, err = stdzlib.NewReader(bytes.NewReader(buf.Bytes()))
			}
			if err != nil {
				bad = "the standard library's reader: " + err.Error()
				return
			}
			got, err := io.ReadAll(r)
			if err != nil || !bytes.Equal(got, ones[:total]) {
				bad = fmt.Sprintf("the standard library's reader: %v (%d of %d bytes)", err, len(got), total)
			}
		}()
		if bad != "" {
			ev.Ret++
			if ev.Err == "nil" {
				ev.Err = fmt.Sprintf("writes %v: %s", sizes, bad)
			}
		}
	}
	for a := 200; a <= 300; a++ {
		for b := 5545; b <= 5575; b++ {
			run(a, b)
		}
	}
	for a := 0; a < 6000; a += 61 {
		run(a, 5552+a%17, 1+a%5)
	}
	for _, n := range []int{5551, 5552, 5553, 11104, 11105, 65535, 65536, 133248, 133254, 133260, 133264} {
		run(n)
	}
	if set.Kind == "gzip" && (c.Data.Period == 2 || c.Arch == 3 || c.Arch == 4) {
		// (quick tier: at the two vector levels only, where 4 GiB take a few seconds)
		// a member that passes 4 GiB, with a Write boundary exactly on 2^32 (where a 32-bit length
		// counter is 0 again) and more data behind it; read by compress/gzip through a pipe
		ev.N++
		if bad := hugeMember(set); bad != "" {
			ev.Ret++
			if ev.Err == "nil" {
				ev.Err = "4 GiB member: " + bad
			}
		}
	}
	emit(ev)
}

func hugeMember(set WSetting) (bad string) {
	defer func() {
		if x := recover(); x != nil {
			bad = "panic: " + panicString(x)
		}
	}()
	pr, pw := io.Pipe()
	type res struct {
		n   int64
		crc uint32
		err error
	}
	done := make(chan res, 1)
	go func() {
		var r res
		zr, err := stdgzip.NewReader(pr)
		if err != nil {
			r.err = err
			io.Copy(io.Discard, pr)
			done <- r
			return
		}
		h := crc32.NewIEEE()
		r.n, r.err = io.Copy(h, zr)
		r.crc = h.Sum32()
		io.Copy(io.Discard, pr)
		done <- r
	}()
	set.Level = 0 // (stored blocks: what is under test is the container's bookkeeping, and 4 GiB should take seconds)
	u, err := newWriter(set, pw, nil)
	if err != nil {
		pw.Close()
		<-done
		return "constructor: " + err.Error()
	}
	unit := make([]byte, 64<<20)
	want := crc32.NewIEEE()
	var total int64
	for i := 0; i < 64 && bad == ""; i++ {
		if _, err := u.w.Write(unit); err != nil {
			bad = "Write: " + err.Error()
		}
		want.Write(unit)
		total += int64(len(unit))
	}
	tail := DataSpec{Class: "text", Seed: 3, Len: 1 << 20}.Bytes()
	if bad == "" {
		if _, err := u.w.Write(tail); err != nil {
			bad = "Write: " + err.Error()
		}
		want.Write(tail)
		total += int64(len(tail))
		if err := u.w.Close(); err != nil {
			bad = "Close: " + err.Error()
		}
	}
	pw.Close()
	r := <-done
	if bad != "" {
		return bad
	}
	if r.err != nil || r.n != total || r.crc != want.Sum32() {
		return fmt.Sprintf("compress/gzip read %d of %d bytes: %v", r.n, total, r.err)
	}
	return ""
}

// zeroValueGzip: a gzip Writer that no constructor has seen - the zero value, made usable by
// Reset (compress/gzip documents nothing else for pooled or embedded Writers); it writes with
// level 0 of the zero value.
func zeroValueGzip(impl string, dst io.Writer) (wUnderTest, error) {
	if impl == "std" {
		w := new(stdgzip.Writer)
		w.Reset(dst)
		return wUnderTest{w, func(d io.Writer) { w.Reset(d) }}, nil
	}
	w := new(fggzip.Writer)
	w.Reset(dst)
	return wUnderTest{w, func(d io.Writer) { w.Reset(d) }}, nil
}
