package main

import (
	"encoding/hex"
	"encoding/json"
	"fmt"
	"math/rand"
	"strings"
	"time"
)

// ---------------------------------------------------------------------------
// C06: containers round-trip and interoperate

func init() { checks["C06"] = checkC06 }

func latin1(rng *rand.Rand, n int, high bool) string {
	var sb strings.Builder
	for i := 0; i < n; i++ {
		c := rune(0x20 + rng.Intn(0x5f))
		if high && rng.Intn(3) == 0 {
			c = rune(0x80 + rng.Intn(0x80))
		}
		sb.WriteRune(c)
	}
	return sb.String()
}

// headerPattern builds a gzip header from a 5-bit presence pattern.
func headerPattern(rng *rand.Rand, bits int, high bool) *GzHeader {
	h := &GzHeader{OS: 255}
	strLen := func(max int) int {
		// mostly short; sometimes at the limit of the reader's 512-byte string buffer
		if rng.Intn(4) == 0 {
			return pick(rng, []int{509, 510, 511})
		}
		return 1 + rng.Intn(max)
	}
	if bits&1 != 0 {
		h.Name = latin1(rng, strLen(40), high)
	}
	if bits&2 != 0 {
		h.Comment = latin1(rng, strLen(200), high)
	}
	if bits&4 != 0 {
		n := pick(rng, []int{0, 1, 2, 100, 65535}) // 0: present but empty (what a reader reports for XLEN = 0)
		h.Extra = make([]byte, n)
		rng.Read(h.Extra)
	}
	if bits&8 != 0 {
		h.ModTime = int64(1 + rng.Intn(1<<31-2))
	}
	if bits&16 != 0 {
		h.OS = byte(rng.Intn(256))
	}
	return h
}

func checkC06(c *Ctx) (int, error) {
	c.ev.Level = "model_checking"
	c.ev.Assumptions = []string{"gzip header presence patterns (all 32) x Latin-1/ASCII x level classes x Write/Flush histories (TLC, WriterModel) x Reset reuse, both directions (fastgo writes / standard library reads, and the reverse); payloads and header strings are seeded samples (incl. 0x80..0xFF and the maximal Extra field)",
		"trailers are recomputed with hash/crc32 and hash/adler32 by the harness's own RFC 1950/1952 parser"}
	if err := c.writerModels(); err != nil {
		return 0, err
	}
	maxLen := 3
	if c.Tier == "thorough" {
		maxLen = 4
	}
	cfg := genCfg(`"gzip", "zlib"`, []int{0, 1, 2}, maxLen, 2, false, []string{"Write", "Flush", "Reset"}, "")
	behs, err := c.Behaviours("WriterModel", "GEN_C06.cfg", map[string]string{"GEN_C06.cfg": cfg}, 10*time.Minute)
	if err != nil {
		return 0, err
	}
	rng := rand.New(rand.NewSource(c.Seed))
	levels := []int{-2, -1, 0, 1, 2, 3, 6, 9}
	var wcases []*WCase
	id := 0
	for bi, b := range behs {
		h, err := parseHist(b)
		if err != nil {
			return 0, err
		}
		for rep := 0; rep < 3; rep++ {
			bits := (bi*3 + rep + int(c.Seed)) % 32
			kind := []string{"gzip", "gzip", "zlib"}[rep]
			set := WSetting{Kind: kind, Level: levels[(bi+rep)%len(levels)], Window: 32768}
			if kind == "gzip" {
				set.Hdr = headerPattern(rng, bits, bits%2 == 1)
			} else if bits%3 == 0 {
				set.Dict = &DataSpec{Class: "text", Seed: int64(bits), Len: 100 + bits*40}
			} else if bits%3 == 1 && bits%2 == 0 {
				set.Dict = &DataSpec{Class: "text", Seed: 1, Len: 0} // an empty, non-nil dictionary: FDICT with DICTID 1
			}
			cs := &WCase{ID: fmt.Sprintf("C06w-%d", id), Set: set, Tag: fmt.Sprintf("%s|hdr%05b", settingTag(set), bits)}
			id++
			total, stream := 0, 0
			for _, o := range h {
				op := Op{Op: o.Op}
				if o.Op == "W" {
					op.N = concreteSize(rng, set, o.N, stream)
					total += op.N
					stream += op.N
				}
				if o.Op == "R" {
					stream = 0
				}
				cs.Ops = append(cs.Ops, op)
			}
			cs.Ops = append(cs.Ops, Op{Op: "W", N: 10}, Op{Op: "C"})
			cs.Data = randData(rng, total+10)
			wcases = append(wcases, cs)
			c.ev.nontrivial(histString(cs.Ops) + "|" + cs.Tag)
		}
	}
	c.ev.Rule = fmt.Sprintf("writer direction: every history of %d calls over {Write(0|small|large), Flush, Reset} (TLC) then Write, Close on gzip with all 32 header-field presence patterns (Latin-1 and ASCII strings, Extra up to 65535 bytes) and zlib with/without dictionary at 8 levels, every acceleration level; reader direction: standard-library-written containers with the same header patterns read by fastgo; distinct by (history, setting, header pattern)", maxLen)
	c.ev.Exhaustive = true
	for _, cs := range spread(wcases) {
		c.ev.sample(map[string]interface{}{"history": histString(cs.Ops), "setting": cs.Tag})
	}
	// the trailer checksums at their implementations' classic pitfall (see execBulkChecksum)
	for bi, set := range []WSetting{{Kind: "zlib", Level: -2, Window: 32768}, {Kind: "zlib", Level: 1, Window: 32768}, {Kind: "gzip", Level: -2, Window: 32768}, {Kind: "zlib", Level: 6, Window: 32768}} {
		cs := &WCase{ID: fmt.Sprintf("C06w-bulk-%d", bi), Set: set, Tag: settingTag(set) + "|checksum-bulk", Bulk: 1, Data: DataSpec{Class: "ones", Seed: int64(bi), Len: 1, Period: map[bool]int{true: 2, false: 0}[c.Tier == "thorough"]}}
		wcases = append(wcases, cs)
		c.ev.nontrivial(cs.Tag)
	}
	n, err := c.writerRun("c06w", c.spreadArch(wcases, true), true)
	if err != nil || n > 0 {
		return n, err
	}
	// reader direction
	for _, m := range [][2]string{{"GzipMech", "MC_GzipMech.cfg"}, {"ZlibReaderMech", "MC_ZlibReaderMech.cfg"}} {
		if err := c.ModelCheck(m[0], m[1], 15*time.Minute); err != nil {
			return 0, err
		}
	}
	var rcases []*RCase
	nPay := 2
	if c.Tier == "thorough" {
		nPay = 8
	}
	for bits := 0; bits < 32; bits++ {
		for k := 0; k < nPay; k++ {
			for _, kind := range []string{"gzip", "zlib"} {
				e := EncSpec{Impl: "std", Kind: kind, Level: levels[(bits+k)%len(levels)], Window: 32768, Data: randData(rng, pick(rng, []int{0, 1, 300, 70000}))}
				var dict *DataSpec
				if kind == "gzip" {
					e.Hdr = headerPattern(rng, bits, bits%2 == 1)
					e.FHCRC = (bits+k)%2 == 0
				} else if bits%2 == 0 {
					dict = &DataSpec{Class: "text", Seed: int64(bits), Len: 50 + bits*30}
					e.Dict = dict
				}
				for _, arch := range c.Levels {
					cs := &RCase{ID: fmt.Sprintf("C06r-%s-%d-%d@A%d", kind, bits, k, arch), Kind: kind, Arch: arch, Tag: fmt.Sprintf("%s|hdr%05b|L%d", kind, bits, e.Level),
						Segs: []RSeg{{Stream: RStream{Enc: []EncSpec{e}}, Src: srcWith(RSource{Kind: "bufio", BufSize: []int{4096, 16, 24, 32, 64, 4096, 100}[(bits+k+arch)%7]}, chunkSchedules[(bits+k)%len(chunkSchedules)]), Reads: readSchedules[(bits+k)%len(readSchedules)], Multi: true, Hdr: kind == "gzip", Dict: dict}}}
					rcases = append(rcases, cs)
				}
				c.ev.nontrivial(fmt.Sprintf("r|%s|%d|%d", kind, bits, k))
			}
		}
	}
	// zlib preset dictionaries: what the stream was written with x what the reader is given
	// (none, empty, the same, another one): Adler-32 of nothing is 1, so "none" and "empty" agree
	some, other := &DataSpec{Class: "text", Seed: 77, Len: 300}, &DataSpec{Class: "text", Seed: 78, Len: 300}
	empty := &DataSpec{Class: "text", Seed: 1, Len: 0}
	for wi, wd := range []*DataSpec{nil, empty, some} {
		for ri, rd := range []*DataSpec{nil, empty, some, other} {
			for ii, impl := range []string{"std", "fastgo"} {
				e := EncSpec{Impl: impl, Kind: "zlib", Level: []int{6, 1, -2, 2}[(wi+ri+ii)%4], Window: 32768, Data: randData(rng, pick(rng, []int{0, 40, 3000})), Dict: wd}
				if impl == "fastgo" && e.Level == 6 {
					e.Level = 1
				}
				b, err := encode(e)
				if err != nil {
					return 0, err
				}
				for _, arch := range c.Levels {
					cs := &RCase{ID: fmt.Sprintf("C06r-dict-%d-%d-%s@A%d", wi, ri, impl, arch), Kind: "zlib", Arch: arch, Tag: fmt.Sprintf("zlib|dict w%d r%d|%s", wi, ri, impl),
						Segs: []RSeg{{Stream: RStream{Hex: hexOf(b)}, Src: srcWith(RSource{Kind: "bufio", BufSize: 4096}, nil), Reads: []int{4096}, Multi: true, Dict: rd}}}
					if ri%2 == 1 {
						// the same through Reset of a Reader that has read another stream
						first := RSeg{Stream: RStream{Enc: []EncSpec{{Impl: "std", Kind: "zlib", Level: 6, Window: 32768, Data: randData(rng, 200)}}}, Src: srcWith(RSource{Kind: "bytesReader"}, nil), Reads: []int{4096}, Multi: true}
						cs.Segs = []RSeg{first, cs.Segs[0]}
					}
					rcases = append(rcases, cs)
				}
				c.ev.nontrivial(fmt.Sprintf("r|dict|%d|%d|%s", wi, ri, impl))
			}
		}
	}
	// a member whose length does not fit ISIZE (the trailer holds it modulo 2^32), followed by another member
	huge := []HugeSpec{{UnitMiB: 64, Reps: 64, TailMiB: 1, Second: true}}
	if c.Tier == "thorough" {
		huge = append(huge, HugeSpec{UnitMiB: 64, Reps: 64, TailMiB: 0, Second: true}, HugeSpec{UnitMiB: 64, Reps: 63, TailMiB: 63, Second: true},
			HugeSpec{UnitMiB: 64, Reps: 128, TailMiB: 5, Second: false})
	}
	for hi := range huge {
		for _, arch := range c.Levels {
			rcases = append(rcases, &RCase{ID: fmt.Sprintf("C06r-huge%d@A%d", hi, arch), Kind: "gzip", Arch: arch, Huge: &huge[hi],
				Tag: fmt.Sprintf("gzip|member of %d MiB", huge[hi].totalMiB())})
		}
		c.ev.nontrivial(fmt.Sprintf("r|huge|%d", hi))
	}
	return c.readerRun("c06r", rcases, true)
}

// ---------------------------------------------------------------------------
// C07: no success for data that fails its checksum

func init() { checks["C07"] = checkC07 }

func checkC07(c *Ctx) (int, error) {
	c.ev.Level = "fault_enumeration"
	c.ev.Assumptions = []string{"EVERY single bit flip and EVERY truncation point of each small container of the run is executed; double flips and byte substitutions are seeded samples; containers: gzip (with and without header fields, two members) and zlib (with and without dictionary) from several encoders",
		"'matches the checksum': the harness's own container parser verifies CRC-32/ISIZE or Adler-32 of the reference inflater's output against the trailer bytes of the (corrupted) input"}
	if err := c.ModelCheck("GzipMech", "MC_GzipMech.cfg", 15*time.Minute); err != nil {
		return 0, err
	}
	if err := c.ModelCheck("ZlibReaderMech", "MC_ZlibReaderMech.cfg", 15*time.Minute); err != nil {
		return 0, err
	}
	rng := rand.New(rand.NewSource(c.Seed))
	nCont, maxPayload, nExtra := 4, 40, 300
	if c.Tier == "thorough" {
		nCont, maxPayload, nExtra = 40, 800, 20000
	}
	type cont struct {
		kind string
		s    RStream
		dict *DataSpec
		name string
	}
	var conts []cont
	for i := 0; i < nCont; i++ {
		d := randData(rng, 1+rng.Intn(maxPayload))
		lvl := []int{6, -2, 1, 2, 0, 9}[i%6]
		impl := []string{"std", "fastgo"}[i%2]
		if impl == "fastgo" && (lvl == 6 || lvl == 0 || lvl == 9) {
			impl = "std"
		}
		g := EncSpec{Impl: impl, Kind: "gzip", Level: lvl, Window: 32768, Data: d}
		if i%2 == 1 {
			g.Hdr = headerPattern(rng, 1+rng.Intn(31), false)
			if len(g.Hdr.Extra) > 20 {
				g.Hdr.Extra = g.Hdr.Extra[:20]
			}
		}
		g.FHCRC = i%4 == 1
		gs := RStream{Enc: []EncSpec{g}}
		if i%3 == 2 {
			gs.Enc = append(gs.Enc, EncSpec{Impl: "std", Kind: "gzip", Level: 6, Window: 32768, Data: randData(rng, 1+rng.Intn(30))})
		}
		conts = append(conts, cont{kind: "gzip", s: gs, name: fmt.Sprintf("gzip%d", i)})
		z := EncSpec{Impl: impl, Kind: "zlib", Level: lvl, Window: 32768, Data: d}
		var dict *DataSpec
		if i%2 == 1 {
			dict = &DataSpec{Class: "text", Seed: int64(i), Len: 64}
			z.Dict = dict
		}
		conts = append(conts, cont{kind: "zlib", s: RStream{Enc: []EncSpec{z}}, dict: dict, name: fmt.Sprintf("zlib%d", i)})
	}
	var cases []*RCase
	id := 0
	add := func(ct cont, mut []Mutation, cut bool, tag string) {
		s := ct.s
		s.Mut = mut
		s.Cut = cut
		cs := &RCase{ID: fmt.Sprintf("C07-%d", id), Kind: ct.kind, Arch: c.Levels[id%len(c.Levels)], Tag: ct.name + "|" + tag,
			Segs: []RSeg{{Stream: s, Src: srcWith(RSource{Kind: "bufio", BufSize: 4096}, chunkSchedules[id%len(chunkSchedules)]), Reads: [][]int{{1}, {2}, {8}, {4096}}[id%4], Multi: true, Dict: ct.dict}}}
		id++
		cases = append(cases, cs)
		c.ev.nontrivial(cs.Tag)
	}
	for ci, ct := range conts {
		b, err := ct.s.Build()
		if err != nil {
			return 0, err
		}
		// every worker must see the same bytes whatever its acceleration level (fastgo's encoders
		// choose matches differently per level): the container is materialised once
		firstEnd := -1
		if len(ct.s.Enc) == 2 {
			if o := refContainer(ct.kind, b, nil, true); len(o.MemberEnds) == 2 {
				firstEnd = o.MemberEnds[0]
			}
		}
		ct.s = RStream{Hex: hex.EncodeToString(b)}
		for bit := 0; bit < len(b)*8; bit++ {
			add(ct, []Mutation{{Op: "flip", Pos: bit}}, false, fmt.Sprintf("flip%d", bit))
		}
		for p := 0; p < len(b); p++ {
			// cutting exactly between two members (or to nothing) leaves a shorter valid file
			cut := p > 0 && p != firstEnd
			add(ct, []Mutation{{Op: "trunc", Pos: p}}, cut, fmt.Sprintf("cut%d", p))
		}
		// every PAIR of bits of the trailer (the last member's 8 bytes of gzip, the 4 of zlib): damage
		// that is coordinated between the checksum and the length word must not cancel out
		tl := 4
		if ct.kind == "gzip" {
			tl = 8
		}
		if len(b) > tl && ci < 4 {
			t0 := (len(b) - tl) * 8
			for i := 0; i < tl*8; i++ {
				for j := i + 1; j < tl*8; j++ {
					add(ct, []Mutation{{Op: "flip", Pos: t0 + i}, {Op: "flip", Pos: t0 + j}}, false, fmt.Sprintf("trailerpair%d-%d", i, j))
				}
			}
		}
		for k := 0; k < nExtra/len(conts)+1; k++ {
			switch k % 3 {
			case 0:
				add(ct, []Mutation{{Op: "flip", Pos: rng.Intn(len(b) * 8)}, {Op: "flip", Pos: rng.Intn(len(b) * 8)}}, false, "flip2")
			case 1:
				add(ct, []Mutation{{Op: "subst", Pos: rng.Intn(len(b)), Val: rng.Intn(256)}}, false, "subst")
			default:
				add(ct, []Mutation{{Op: "flip", Pos: rng.Intn(len(b) * 8)}, {Op: "trunc", Pos: rng.Intn(len(b))}}, false, "flip+cut")
			}
		}
	}
	c.ev.Rule = fmt.Sprintf("%d containers (gzip with/without header fields and with two members, zlib with/without dictionary; compress/* and fastgo encoders; payloads up to %d bytes): every single bit flip, every truncation point, every pair of trailer bits (first four containers), plus %d double flips / substitutions / flip+cut, Read sizes {1,2,8,4096}, rotating acceleration levels; distinct by (container, mutation)", len(conts), maxPayload, nExtra)
	c.ev.Exhaustive = true
	for _, cs := range spread(cases) {
		c.ev.sample(map[string]interface{}{"case": cs.Tag})
	}
	return c.readerRun("c07", cases, true)
}

// ---------------------------------------------------------------------------
// C08: concatenated gzip members

func init() { checks["C08"] = checkC08 }

type memberFile struct {
	Members []struct {
		Payload  string `json:"payload"`
		Producer string `json:"producer"`
	} `json:"members"`
	Trailer string `json:"trailer"`
	Mode    string `json:"mode"`
}

func checkC08(c *Ctx) (int, error) {
	c.ev.Level = "model_checking"
	c.ev.Assumptions = []string{"member sequences are exhaustive within the bounds of MemberGen (TLC); payload bytes, header fields and Read/bufio sizes are seeded samples"}
	if err := c.ModelCheck("GzipMech", "MC_GzipMech.cfg", 15*time.Minute); err != nil {
		return 0, err
	}
	if err := c.ModelCheck("ZlibReaderMech", "MC_ZlibReaderMech.cfg", 15*time.Minute); err != nil {
		return 0, err
	}
	maxM := 3
	pay := `{"empty", "one", "big"}`
	prod := `{"fastgo-2", "fastgo1", "std6"}`
	if c.Tier == "thorough" {
		maxM = 4
		pay = `{"empty", "small", "big"}`
		prod = `{"fastgo-2", "fastgo2", "std0"}`
	}
	cfg := fmt.Sprintf("SPECIFICATION Spec\nCONSTANTS\n  MaxMembers = %d\n  Payloads = %s\n  Producers = %s\n  Trailers = {\"none\", \"garbage\", \"zeros\"}\n  Modes = {\"concat\", \"members\"}\nINVARIANTS PrintFile\nCHECK_DEADLOCK FALSE\n", maxM, pay, prod)
	behs, err := c.Behaviours("MemberGen", "GEN_C08.cfg", map[string]string{"GEN_C08.cfg": cfg}, 10*time.Minute)
	if err != nil {
		return 0, err
	}
	rng := rand.New(rand.NewSource(c.Seed))
	var cases []*RCase
	for i, b := range behs {
		var f memberFile
		if err := json.Unmarshal([]byte(b), &f); err != nil {
			return 0, err
		}
		var s RStream
		for mi, m := range f.Members {
			n := map[string]int{"empty": 0, "one": 1, "small": 200 + rng.Intn(3000), "big": 66000 + rng.Intn(40000)}[m.Payload]
			e := EncSpec{Kind: "gzip", Window: 32768, Data: randData(rng, n)}
			fmt.Sscanf(strings.TrimLeft(m.Producer, "fastgod"), "%d", &e.Level)
			e.Impl = "std"
			if strings.HasPrefix(m.Producer, "fastgo") {
				e.Impl = "fastgo"
			}
			e.Hdr = &GzHeader{Name: fmt.Sprintf("member%d-%d", i, mi), OS: 255}
			if (i+mi)%2 == 0 {
				e.Hdr.Extra = []byte(fmt.Sprintf("extra field of member %d of file %d", mi, i))
				e.Hdr.Comment = fmt.Sprintf("comment %d", mi)
			}
			switch (i + 2*mi) % 7 {
			case 3:
				// an extra field longer than any read buffer in use, Latin-1 strings longer than the small ones
				e.Hdr.Extra = make([]byte, 5000+rng.Intn(3000))
				rng.Read(e.Hdr.Extra)
				e.Hdr.Comment = latin1(rng, 100+rng.Intn(300), true)
			case 5:
				e.Hdr.Extra = make([]byte, 60+rng.Intn(200))
				rng.Read(e.Hdr.Extra)
				e.Hdr.Name = latin1(rng, 20+rng.Intn(60), true) + ".txt"
			case 1:
				// a BGZF block header (the blocked gzip of bioinformatics files): only an Extra field with
				// the subfield 'B','C', length 2, and the block size; every block of such a file looks like this
				// (BSIZE 27: the header bytes of the format's end-of-file marker block, here with a payload)
				e.Hdr = &GzHeader{Extra: []byte{'B', 'C', 2, 0, 27, 0}, OS: 255}
			}
			// the optional header CRC (no Go writer emits it; readers must verify it) - cannot be added to
			// a member that is written through Reset of a shared Writer, so those stay without
			e.Reuse = i%2 == 0 // members written by one Writer through Reset (the usual way to write multi-member files)
			if !e.Reuse && (i+mi)%3 == 0 {
				e.FHCRC = true
			}
			s.Enc = append(s.Enc, e)
		}
		switch f.Trailer {
		case "garbage":
			s.Mut = []Mutation{{Op: "append", N: 1 + rng.Intn(40), Seed: int64(i)}}
		case "zeros":
			s.Mut = []Mutation{{Op: "appendzero", N: 1 + rng.Intn(40)}}
		}
		seg := RSeg{Stream: s, Src: srcWith(RSource{Kind: "bufio", BufSize: pick(rng, []int{16, 64, 4096, 65536})}, chunkSchedules[i%len(chunkSchedules)]),
			Reads: readSchedules[i%len(readSchedules)], Multi: f.Mode == "concat", Members: f.Mode == "members", Hdr: true}
		cs := &RCase{ID: fmt.Sprintf("C08-%d", i), Kind: "gzip", Arch: c.Levels[i%len(c.Levels)], Tag: b, Segs: []RSeg{seg}}
		cases = append(cases, cs)
		c.ev.nontrivial(b)
	}
	c.ev.Rule = fmt.Sprintf("every gzip file of 1..%d members over payload classes %s x producers %s, trailing {none, garbage, zeros} and both reading modes (TLC, MemberGen); bufio sizes {16,64,4096,65536}, rotating schedules and acceleration levels; concat mode: concatenated payloads then io.EOF; member mode: each payload and header in order and the source positioned after each member; distinct by file description", maxM, pay, prod)
	c.ev.Exhaustive = true
	for _, cs := range spread(cases) {
		c.ev.sample(json.RawMessage(cs.Tag))
	}
	// a first member longer than 4 GiB (its ISIZE is the length modulo 2^32), then another member
	hs := &HugeSpec{UnitMiB: 64, Reps: 64, TailMiB: 2, Second: true}
	for _, arch := range c.Levels {
		cases = append(cases, &RCase{ID: fmt.Sprintf("C08-huge@A%d", arch), Kind: "gzip", Arch: arch, Huge: hs, Tag: `"a member of more than 4 GiB, then a second member"`})
	}
	return c.readerRun("c08", cases, true)
}
