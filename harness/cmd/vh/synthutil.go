package main

import (
	"encoding/hex"

	"verif/harness/synth"
)

// fixedMatchHex builds a final fixed-Huffman block "match(length, dist); EOB".
func fixedMatchHex(length, dist int) string {
	var w synth.BitWriter
	synth.Fixed(&w, true, []synth.Tok{synth.Match(length, dist)})
	return hex.EncodeToString(w.Bytes())
}
