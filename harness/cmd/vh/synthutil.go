package main

import (
	"encoding/hex"
	"fmt"
	"math/rand"

	"verif/harness/synth"
)

// noDistMatchHex: a valid dynamic block with a rich distance code (so that a decoder's
// distance table is loaded), then a dynamic block that declares NO distance codes at all
// and nevertheless contains a length symbol.  Malformed: the second block must be
// rejected at the length symbol, whatever the earlier block left in the tables.
func noDistMatchHex(rng *rand.Rand, later bool) (string, error) {
	var w synth.BitWriter
	if later {
		first := synth.Desc{Seed: rng.Int63n(1 << 40), Blocks: []synth.BlockDesc{{Type: "dyn", LShape: "flat", DShape: "flat", Toks: "mixed", N: 40 + rng.Intn(200)}}}
		b, _, err := first.Build()
		if err != nil {
			return "", err
		}
		// re-emit the first block as non-final: build it with a second dummy block and cut? simpler: use the synthesiser directly
		_ = b
		data := make([]byte, 300)
		rng.Read(data)
		for i := 100; i < 300; i++ {
			data[i] = data[i-37-i%50]
		}
		toks := synth.Tokenize(data, 32768)
		freqL := make([]int, 286)
		freqD := make([]int, 30)
		for _, t := range toks {
			if t.Lit >= 0 {
				freqL[t.Lit]++
			} else {
				ls, _, _ := synth.LenSym(t.Len)
				ds, _, _ := synth.DistSym(t.Dist)
				freqL[ls]++
				freqD[ds]++
			}
		}
		freqL[256]++
		for i := 0; i < 12; i++ {
			freqD[i]++ // a rich distance code
		}
		if err := synth.Dynamic(&w, false, synth.LensFromFreq(freqL, 15), synth.LensFromFreq(freqD, 15), toks, synth.DynOptions{UseRepeat: true}); err != nil {
			return "", err
		}
	}
	lit := make([]uint8, 286)
	lit['a'], lit['b'], lit[256], lit[257+rng.Intn(8)] = 2, 2, 2, 2
	dist := make([]uint8, 30) // all zero: no distance codes
	sw, err := synth.DynamicHeader(&w, true, lit, dist, synth.DynOptions{})
	if err != nil {
		return "", err
	}
	sw.Tok(synth.Lit('a'))
	sw.Tok(synth.Lit('b'))
	for s := 257; s < 265; s++ {
		if lit[s] != 0 {
			sw.LitLenSym(s)
		}
	}
	sw.RawCode(uint32(rng.Intn(4)), 2) // whatever follows where a distance code would be
	sw.RawCode(0, 8)
	sw.EOB()
	w.Bits(0, 16)
	return hex.EncodeToString(w.Bytes()), nil
}

// storedFinalHex: a literal-only dynamic block followed by a FINAL stored block, ending at
// exactly total bytes of output.
func storedFinalHex(rng *rand.Rand, total, storedLen int) (string, error) {
	d := synth.Desc{Seed: rng.Int63n(1 << 40), Blocks: []synth.BlockDesc{
		{Type: "dyn", LShape: []string{"flat", "random"}[rng.Intn(2)], DShape: "none", Toks: "lits", N: total - storedLen},
		{Type: "stored", LShape: "flat", DShape: "flat", Toks: "lits", N: storedLen}}}
	b, _, err := d.Build()
	if err != nil {
		return "", err
	}
	return hex.EncodeToString(b), nil
}

// fixedMatchHex builds a final fixed-Huffman block "match(length, dist); EOB".
func fixedMatchHex(length, dist int) string {
	var w synth.BitWriter
	synth.Fixed(&w, true, []synth.Tok{synth.Match(length, dist)})
	return hex.EncodeToString(w.Bytes())
}

// edgePatterns: what one decoding-table lookup can yield when the codes are two to four bits
// long: up to three literals, or literals followed by a length symbol.
var edgePatterns = []string{"L258", "LL258", "LL257", "L257", "258", "LLL", "L3", "LL3"}

// edgeStream builds a dynamic block with two- to four-bit codes (so that the Reader packs
// several symbols into one decoding-table entry) in which the token pattern pat starts at
// output offset pos exactly: 1+lead literals, copies of length 258 from distance 1, literals up
// to pos (lead shifts how these literals are grouped into table entries), the pattern, three more literals, end of block; then a final block (tail "stored" or
// "fixed"), or the block itself is final (tail "final").  It returns the stream and the
// expected output.
func edgeStream(pat string, pos, lead int, tail string) ([]byte, []byte, int, error) {
	lit := make([]uint8, 286)
	lit['a'], lit['b'], lit[285], lit[256], lit[284], lit[257] = 2, 2, 2, 3, 4, 4
	dist := make([]uint8, 30)
	dist[0], dist[1] = 1, 1
	if pos < 600 {
		return nil, nil, 0, fmt.Errorf("edgeStream: pos %d too small", pos)
	}
	toks := []synth.Tok{synth.Lit('a')}
	for i := 0; i < lead; i++ {
		toks = append(toks, synth.Lit('a'))
	}
	k := (pos-1-lead)/258 - 1
	for i := 0; i < k; i++ {
		toks = append(toks, synth.Match(258, 1))
	}
	for n := 1 + lead + 258*k; n < pos; n++ {
		toks = append(toks, synth.Lit('a'))
	}
	for i := 0; i < len(pat); {
		switch {
		case pat[i] == 'L':
			toks = append(toks, synth.Lit('b'))
			i++
		case pat[i:] == "258":
			toks = append(toks, synth.Match(258, 1))
			i += 3
		case pat[i:] == "257":
			toks = append(toks, synth.Match(257, 2))
			i += 3
		case pat[i:] == "3":
			toks = append(toks, synth.Match(3, 1))
			i++
		default:
			return nil, nil, 0, fmt.Errorf("edgeStream: pattern %q", pat)
		}
	}
	// where the pattern starts in the compressed bytes
	var pre synth.BitWriter
	nPre := len(toks) - map[string]int{"L258": 2, "LL258": 3, "LL257": 3, "L257": 2, "258": 1, "LLL": 3, "L3": 2, "LL3": 3}[pat]
	if err := synth.Dynamic(&pre, false, lit, dist, toks[:nPre], synth.DynOptions{UseRepeat: true}); err != nil {
		return nil, nil, 0, err
	}
	patByte := int(pre.BitLen()-3) / 8 // (without the end-of-block code that Dynamic appended)
	// enough input behind the pattern for the fast decode loops to be the ones that meet it
	for _, ch := range "abaabbabaaba" {
		toks = append(toks, synth.Lit(byte(ch)))
	}
	var w synth.BitWriter
	if err := synth.Dynamic(&w, tail == "final", lit, dist, toks, synth.DynOptions{UseRepeat: true}); err != nil {
		return nil, nil, 0, err
	}
	out := synth.Expand(nil, toks)
	switch tail {
	case "stored":
		t := []byte("the tail of the stream, a stored block of some length")
		synth.Stored(&w, true, t)
		out = append(out, t...)
	case "fixed":
		var ft []synth.Tok
		for _, ch := range "a final fixed block with thirty-odd literals" {
			ft = append(ft, synth.Lit(byte(ch)))
		}
		synth.Fixed(&w, true, ft)
		out = append(out, "a final fixed block with thirty-odd literals"...)
	}
	return w.Bytes(), out, patByte, nil
}

// finalFixedLiterals: a stream that consists of ONE final fixed-Huffman block of n literals,
// m of them with nine-bit codes (the others eight), so that the end-of-block
// code ends at every bit position of the last byte as m varies.
func finalFixedLiterals(n, m int) []byte {
	toks := make([]synth.Tok, n)
	for i := range toks {
		toks[i] = synth.Lit(byte('a' + i%7))
		if i >= n-1-m && i < n-1 {
			toks[i] = synth.Lit(byte(200 + i%5)) // 144..255: nine bits
		}
	}
	var w synth.BitWriter
	synth.Fixed(&w, true, toks)
	return w.Bytes()
}

func hexOf(b []byte) string { return hex.EncodeToString(b) }

// manyEmptyBlocks: k blocks that produce no output (sync markers, empty fixed blocks, empty
// dynamic blocks in rotation), then a few literals: a valid stream may go on for as long as
// it likes without output.
func manyEmptyBlocks(k int) ([]byte, []byte) {
	var w synth.BitWriter
	lit := make([]uint8, 286)
	lit['x'], lit[256] = 1, 1
	for i := 0; i < k; i++ {
		switch i % 5 {
		case 1:
			synth.Fixed(&w, false, nil)
		case 3:
			synth.Dynamic(&w, false, lit, make([]uint8, 30), nil, synth.DynOptions{UseRepeat: true})
		default:
			synth.SyncMarker(&w)
		}
	}
	synth.Fixed(&w, true, []synth.Tok{synth.Lit('h'), synth.Lit('e'), synth.Lit('l'), synth.Lit('l'), synth.Lit('o')})
	return w.Bytes(), []byte("hello")
}

// fullDistTableStream: a dynamic block whose distance code is one of the few complete codes
// that fill the decoder's long-code table for distances to its last entry (3 codes of 2 bits,
// one each of 3..7 bits, 13 of 11, 5 of 12, one of 13, one of 14, two of 15 bits), with
// matches through every one of its 30 codes.
func fullDistTableStream(rng *rand.Rand) ([]byte, []byte, error) {
	lens := []uint8{2, 2, 2, 3, 4, 5, 6, 7, 11, 11, 11, 11, 11, 11, 11, 11, 11, 11, 11, 11, 11, 12, 12, 12, 12, 12, 13, 14, 15, 15}
	rng.Shuffle(len(lens), func(i, j int) { lens[i], lens[j] = lens[j], lens[i] })
	toks := []synth.Tok{}
	out := 0
	for i := 0; i < 40000; i++ {
		toks = append(toks, synth.Lit(byte(rng.Intn(256))))
		out++
	}
	bases := []int{1, 2, 3, 4, 5, 7, 9, 13, 17, 25, 33, 49, 65, 97, 129, 193, 257, 385, 513, 769, 1025, 1537, 2049, 3073, 4097, 6145, 8193, 12289, 16385, 24577}
	for rep := 0; rep < 3; rep++ {
		for s := 0; s < 30; s++ {
			toks = append(toks, synth.Match(3+rng.Intn(20), bases[s]+rng.Intn(maxInt(1, bases[s]/4))))
			toks = append(toks, synth.Lit(byte(rng.Intn(256))))
		}
	}
	lf := make([]int, 286)
	for _, t := range toks {
		if t.Lit >= 0 {
			lf[t.Lit]++
		} else {
			ls, _, _ := synth.LenSym(t.Len)
			lf[ls]++
		}
	}
	lf[256]++
	var w synth.BitWriter
	if err := synth.Dynamic(&w, false, synth.LensFromFreq(lf, 15), lens, toks, synth.DynOptions{UseRepeat: true}); err != nil {
		return nil, nil, err
	}
	synth.Stored(&w, true, []byte("end"))
	return w.Bytes(), append(synth.Expand(nil, toks), "end"...), nil
}
