package main

import (
	"encoding/hex"
	"math/rand"

	"verif/harness/synth"
)

// noDistMatchHex: a valid dynamic block with a rich distance code (so that a decoder's
// distance table is loaded), then a dynamic block that declares NO distance codes at all
// and nevertheless contains a length symbol.  Malformed: the second block must be
// rejected at the length symbol, whatever the earlier block left in the tables.
func noDistMatchHex(rng *rand.Rand, later bool) (string, error) {
	var w synth.BitWriter
	if later {
		first := synth.Desc{Seed: rng.Int63n(1 << 40), Blocks: []synth.BlockDesc{{Type: "dyn", LShape: "flat", DShape: "flat", Toks: "mixed", N: 40 + rng.Intn(200)}}}
		b, _, err := first.Build()
		if err != nil {
			return "", err
		}
		// re-emit the first block as non-final: build it with a second dummy block and cut? simpler: use the synthesiser directly
		_ = b
		data := make([]byte, 300)
		rng.Read(data)
		for i := 100; i < 300; i++ {
			data[i] = data[i-37-i%50]
		}
		toks := synth.Tokenize(data, 32768)
		freqL := make([]int, 286)
		freqD := make([]int, 30)
		for _, t := range toks {
			if t.Lit >= 0 {
				freqL[t.Lit]++
			} else {
				ls, _, _ := synth.LenSym(t.Len)
				ds, _, _ := synth.DistSym(t.Dist)
				freqL[ls]++
				freqD[ds]++
			}
		}
		freqL[256]++
		for i := 0; i < 12; i++ {
			freqD[i]++ // a rich distance code
		}
		if err := synth.Dynamic(&w, false, synth.LensFromFreq(freqL, 15), synth.LensFromFreq(freqD, 15), toks, synth.DynOptions{UseRepeat: true}); err != nil {
			return "", err
		}
	}
	lit := make([]uint8, 286)
	lit['a'], lit['b'], lit[256], lit[257+rng.Intn(8)] = 2, 2, 2, 2
	dist := make([]uint8, 30) // all zero: no distance codes
	sw, err := synth.DynamicHeader(&w, true, lit, dist, synth.DynOptions{})
	if err != nil {
		return "", err
	}
	sw.Tok(synth.Lit('a'))
	sw.Tok(synth.Lit('b'))
	for s := 257; s < 265; s++ {
		if lit[s] != 0 {
			sw.LitLenSym(s)
		}
	}
	sw.RawCode(uint32(rng.Intn(4)), 2) // whatever follows where a distance code would be
	sw.RawCode(0, 8)
	sw.EOB()
	w.Bits(0, 16)
	return hex.EncodeToString(w.Bytes()), nil
}

// storedFinalHex: a literal-only dynamic block followed by a FINAL stored block, ending at
// exactly total bytes of output.
func storedFinalHex(rng *rand.Rand, total, storedLen int) (string, error) {
	d := synth.Desc{Seed: rng.Int63n(1 << 40), Blocks: []synth.BlockDesc{
		{Type: "dyn", LShape: []string{"flat", "random"}[rng.Intn(2)], DShape: "none", Toks: "lits", N: total - storedLen},
		{Type: "stored", LShape: "flat", DShape: "flat", Toks: "lits", N: storedLen}}}
	b, _, err := d.Build()
	if err != nil {
		return "", err
	}
	return hex.EncodeToString(b), nil
}

// fixedMatchHex builds a final fixed-Huffman block "match(length, dist); EOB".
func fixedMatchHex(length, dist int) string {
	var w synth.BitWriter
	synth.Fixed(&w, true, []synth.Tok{synth.Match(length, dist)})
	return hex.EncodeToString(w.Bytes())
}
