package main

import (
	"bytes"
	"crypto/sha1"
	"encoding/hex"
	"encoding/json"
	"fmt"
	"io"
	"math/rand"
	"runtime"
	"sync"
	"time"
)

// InstSpec is one Writer or Reader instance of a concurrency case.
type InstSpec struct {
	Role   string   `json:"role"` // "writer" | "reader"
	Set    WSetting `json:"set"`  // writer setting, or the encoder of the reader's stream
	Data   DataSpec `json:"data"`
	Ops    []Op     `json:"ops"`   // writer
	Reads  []int    `json:"reads"` // reader
	Chunks []int    `json:"chunks"`
	// reader: further streams through the same instance, each entered by "R" (Reset of the Reader),
	// "CR" (Close, then Reset: a Reader that went back to a pool), "CN" (Close, then a new Reader)
	// or "N" (a new Reader, the old one dropped unclosed)
	Life []string `json:"life"`
}

// CCase runs instances concurrently, optionally under an enforced interleaving of their I/O steps.
type CCase struct {
	ID       string     `json:"id"`
	Family   string     `json:"family"`
	Arch     int        `json:"arch"`
	Insts    []InstSpec `json:"insts"`
	Schedule []int      `json:"schedule"` // instance index (1-based) per I/O step; empty = free running
	Procs    int        `json:"procs"`    // GOMAXPROCS
	Rounds   int        `json:"rounds"`   // free-running repetitions
	Cold     bool       `json:"cold"`     // run concurrently first (nothing of the library has run in this process yet), solo afterwards
	Hammer   int        `json:"hammer"`   // > 0: every instance repeats its (tiny) stream this many times, constructing or resetting its Reader/Writer each time
	Tag      string     `json:"tag"`
}

func (c *CCase) Header() *caseHeader { return &caseHeader{ID: c.ID, Family: "conc", Arch: c.Arch} }

func init() {
	families["conc"] = func(raw []byte, arch int, emit func(interface{})) {
		var c CCase
		if err := json.Unmarshal(raw, &c); err != nil {
			panic(err)
		}
		execConcCase(&c, arch, emit)
	}
	decoders["conc"] = func(raw json.RawMessage) (Case, string, string, error) {
		var c CCase
		if err := json.Unmarshal(raw, &c); err != nil {
			return nil, "", "", err
		}
		return &c, "InstTrace", "TV_Inst.cfg", nil
	}
	identitySetters["conc"] = func(cs Case, id string, arch int, group string) {
		c := cs.(*CCase)
		c.ID, c.Arch = id, arch
	}
}

// CEvent is one line of a concurrency trace.
type CEvent struct {
	Ev      string `json:"ev"`
	Case    string `json:"case"`
	Idx     int    `json:"idx"`
	Role    string `json:"role"`
	Equal   bool   `json:"equal"`
	ErrSame bool   `json:"errsame"`
	Panic   string `json:"panic"`
	Steps   int    `json:"steps"`
	Procs   int    `json:"procs"`
	N       int    `json:"n"`
}

// gate serialises I/O steps according to a schedule.
type gate struct {
	mu    sync.Mutex
	cond  *sync.Cond
	turn  []int // remaining schedule
	done  map[int]bool
	free  bool
	steps int
}

func newGate(schedule []int) *gate {
	g := &gate{turn: append([]int{}, schedule...), done: map[int]bool{}, free: len(schedule) == 0}
	g.cond = sync.NewCond(&g.mu)
	return g
}

// step blocks instance i until it is its turn for one I/O step.
func (g *gate) step(i int) {
	g.mu.Lock()
	defer g.mu.Unlock()
	g.steps++
	for !g.free {
		g.skipDone()
		if len(g.turn) == 0 {
			g.free = true
			break
		}
		if g.turn[0] == i {
			g.turn = g.turn[1:]
			g.cond.Broadcast()
			return
		}
		g.cond.Wait()
	}
}

func (g *gate) skipDone() {
	for len(g.turn) > 0 && g.done[g.turn[0]] {
		g.turn = g.turn[1:]
		g.cond.Broadcast()
	}
}

func (g *gate) finish(i int) {
	g.mu.Lock()
	g.done[i] = true
	g.skipDone()
	g.cond.Broadcast()
	g.mu.Unlock()
}

type gatedWriter struct {
	w io.Writer
	g *gate
	i int
}

func (x *gatedWriter) Write(p []byte) (int, error) {
	if x.g != nil {
		x.g.step(x.i)
	}
	return x.w.Write(p)
}

type gatedReader struct {
	r io.Reader
	g *gate
	i int
}

func (x *gatedReader) Read(p []byte) (int, error) {
	if x.g != nil {
		x.g.step(x.i)
	}
	return x.r.Read(p)
}

type chunkReader struct {
	data   []byte
	pos    int
	chunks []int
	ci     int
}

func (c *chunkReader) Read(p []byte) (int, error) {
	if c.pos >= len(c.data) {
		return 0, io.EOF
	}
	n := len(p)
	if len(c.chunks) > 0 {
		k := c.chunks[c.ci%len(c.chunks)]
		c.ci++
		if k > 0 && k < n {
			n = k
		}
	}
	if c.pos+n > len(c.data) {
		n = len(c.data) - c.pos
	}
	copy(p, c.data[c.pos:c.pos+n])
	c.pos += n
	return n, nil
}

// runInstance executes one instance; g == nil means solo.
func runInstance(spec *InstSpec, prepared [][]byte, g *gate, idx int) (digest string, errs string, pan string) {
	defer func() {
		if x := recover(); x != nil {
			pan = panicString(x)
		}
		if g != nil {
			g.finish(idx)
		}
	}()
	h := sha1.New()
	switch spec.Role {
	case "writer":
		var buf bytes.Buffer
		var dict []byte
		if spec.Set.Dict != nil {
			dict = spec.Set.Dict.Bytes()
		}
		set := spec.Set
		set.Impl = "fastgo"
		u, err := newWriter(set, &gatedWriter{&buf, g, idx}, dict)
		if err != nil {
			return "", "ctor:" + err.Error(), ""
		}
		data := spec.Data.Bytes()
		pos := 0
		for _, op := range spec.Ops {
			var e error
			switch op.Op {
			case "W":
				n := minInt(op.N, len(data)-pos)
				_, e = u.w.Write(data[pos : pos+n])
				pos += n
			case "F":
				e = u.w.Flush()
			case "C":
				e = u.w.Close()
			case "R":
				// reuse the Writer for another stream (the usual pool pattern)
				h.Write(buf.Bytes())
				buf.Reset()
				u.reset(&gatedWriter{&buf, g, idx})
			case "N":
				// drop the Writer and construct a new one while other instances are running
				h.Write(buf.Bytes())
				buf.Reset()
				u, err = newWriter(set, &gatedWriter{&buf, g, idx}, dict)
				if err != nil {
					return "", "ctor:" + err.Error(), ""
				}
			}
			errs += errStr(e) + ","
		}
		h.Write(buf.Bytes())
	case "reader":
		var dict []byte
		if spec.Set.Dict != nil {
			dict = spec.Set.Dict.Bytes()
		}
		var u readerUnderTest
		buf := make([]byte, 1<<17)
		for k, stream := range prepared {
			src := &gatedReader{&chunkReader{data: stream, chunks: spec.Chunks}, g, idx}
			how := "N"
			if k > 0 {
				how = spec.Life[k-1]
			}
			if how == "CR" || how == "CN" {
				if cl, ok := u.r.(io.Closer); ok {
					errs += "close:" + errStr(cl.Close()) + ","
				}
			}
			var err error
			if how == "R" || how == "CR" {
				err = u.reset(src, dict)
			} else {
				u, err = newReader("fastgo", spec.Set.Kind, src, dict)
			}
			if err != nil {
				return "", errs + "ctor:" + err.Error(), ""
			}
			if u.gzHdr != nil {
				hd := u.gzHdr() // header fields are part of what the instance produces
				h.Write([]byte(hd.Name + "\x00" + hd.Comment + "\x00"))
				h.Write(hd.Extra)
			}
			reads := spec.Reads
			if len(reads) == 0 {
				reads = []int{4096}
			}
			for j := 0; ; j++ {
				sz := reads[j%len(reads)]
				if sz < 1 {
					sz = 4096 // (the read schedules' "drain with io.Copy" marker has no meaning here)
				}
				n, e := u.r.Read(buf[:sz])
				h.Write(buf[:n])
				if e != nil {
					cls, _ := errClassR(e, nil)
					errs += cls + ","
					break
				}
			}
		}
	}
	return hex.EncodeToString(h.Sum(nil))[:16], errs, ""
}

func execConcCase(c *CCase, arch int, emit func(interface{})) {
	if c.Procs > 0 {
		old := runtime.GOMAXPROCS(c.Procs)
		defer runtime.GOMAXPROCS(old)
	}
	if c.Hammer > 0 {
		execHammer(c, emit)
		return
	}
	emit(CEvent{Ev: "Begin", Case: c.ID, N: len(c.Insts), Steps: len(c.Schedule), Procs: c.Procs})
	// prepare reader inputs with the standard library's encoders (independent of the code under test)
	prepared := make([][][]byte, len(c.Insts))
	for i := range c.Insts {
		sp := &c.Insts[i]
		if sp.Role == "reader" {
			for k := 0; k <= len(sp.Life); k++ {
				b, err := encode(EncSpec{Impl: "std", Kind: sp.Set.Kind, Level: sp.Set.Level, Window: 32768, Data: epochData(sp.Data, k), Dict: sp.Set.Dict, Hdr: sp.Set.Hdr})
				if err != nil {
					emit(CEvent{Ev: "Crash", Case: c.ID, Panic: "harness: " + err.Error()})
					return
				}
				prepared[i] = append(prepared[i], b)
			}
		}
	}
	type res struct{ d, e, p string }
	solo := make([]res, len(c.Insts))
	runSolo := func() {
		for i := range c.Insts {
			d, e, p := runInstance(&c.Insts[i], prepared[i], nil, i+1)
			solo[i] = res{d, e, p}
		}
	}
	if !c.Cold {
		runSolo()
	}
	rounds := c.Rounds
	if rounds < 1 {
		rounds = 1
	}
	for r := 0; r < rounds; r++ {
		g := newGate(c.Schedule)
		conc := make([]res, len(c.Insts))
		var wg sync.WaitGroup
		for i := range c.Insts {
			wg.Add(1)
			go func(i int) {
				defer wg.Done()
				d, e, p := runInstance(&c.Insts[i], prepared[i], g, i+1)
				conc[i] = res{d, e, p}
			}(i)
		}
		wg.Wait()
		if c.Cold && r == 0 {
			runSolo()
		}
		for i := range c.Insts {
			pan := conc[i].p
			if pan == "" {
				pan = solo[i].p
			}
			emit(CEvent{Ev: "Inst", Case: c.ID, Idx: i, Role: c.Insts[i].Role, Equal: conc[i].d == solo[i].d, ErrSame: conc[i].e == solo[i].e, Panic: pan, Steps: g.steps})
		}
	}
	emit(CEvent{Ev: "End", Case: c.ID})
}

// randomInstance draws a workload.
func randomInstance(rng *rand.Rand, small bool) InstSpec {
	set := allWSettings[rng.Intn(len(allWSettings))]
	n := pick(rng, []int{100, 5000, 70000, 140000})
	if small {
		n = pick(rng, []int{100, 3000, 20000, 70000})
	}
	d := randData(rng, n)
	if rng.Intn(2) == 0 {
		// one to three streams through the same instance: closed Writers are reused
		// through Reset or replaced by newly constructed ones while others run
		sp := InstSpec{Role: "writer", Set: set, Data: d}
		streams := 1 + rng.Intn(3)
		left := n
		for st := 0; st < streams; st++ {
			if st > 0 {
				sp.Ops = append(sp.Ops, Op{Op: []string{"R", "N"}[rng.Intn(2)]})
			}
			part := left
			if st < streams-1 {
				part = left / 2
			}
			for part > 0 {
				k := minInt(part, 1+rng.Intn(n))
				sp.Ops = append(sp.Ops, Op{Op: "W", N: k})
				part -= k
				left -= k
				if rng.Intn(3) == 0 {
					sp.Ops = append(sp.Ops, Op{Op: "F"})
				}
			}
			sp.Ops = append(sp.Ops, Op{Op: "C"})
		}
		return sp
	}
	set.Window = 32768
	if set.Level < -2 || set.Level > 9 {
		set.Level = 6
	}
	set.Hdr = nil
	if set.Kind == "gzip" {
		set.Hdr = &GzHeader{Name: latin1(rng, 1+rng.Intn(100), true), Comment: latin1(rng, 1+rng.Intn(300), true), OS: 255}
	}
	in := InstSpec{Role: "reader", Set: set, Data: d, Reads: readSchedules[rng.Intn(len(readSchedules))], Chunks: chunkSchedules[rng.Intn(len(chunkSchedules))]}
	if rng.Intn(2) == 0 {
		// one to three more streams through the instance: the Reader is reused through Reset (also
		// after Close, as when it comes back from a pool) or replaced while other instances run
		for k := 1 + rng.Intn(3); k > 0; k-- {
			in.Life = append(in.Life, []string{"R", "CR", "CN", "N", "CR"}[rng.Intn(5)])
		}
		if n > 20000 {
			in.Data.Len = 20000 // (several streams: keep the instance's work bounded)
		}
	}
	return in
}

var _ = time.Second
var _ = fmt.Sprint

// execHammer: the life of pooled objects under load.  Every instance handles the same tiny stream
// c.Hammer times, alternately with a newly constructed and a reset Reader/Writer, and compares
// each result with the one it got alone; all instances run at once.  What goes wrong only when
// two constructions or Resets overlap in time (a shared cache, a pool) shows as a result that
// differs, long before a data race is ever reported.
func execHammer(c *CCase, emit func(interface{})) {
	emit(CEvent{Ev: "Begin", Case: c.ID, N: len(c.Insts), Steps: 0, Procs: c.Procs})
	type job struct {
		spec     *InstSpec
		stream   []byte // reader: what it reads
		data     []byte
		dict     []byte
		want     []byte // writer: what a lone Writer emits
		bad, err int
		pan      string
	}
	jobs := make([]*job, len(c.Insts))
	for i := range c.Insts {
		sp := &c.Insts[i]
		j := &job{spec: sp, data: sp.Data.Bytes()}
		if sp.Set.Dict != nil {
			j.dict = sp.Set.Dict.Bytes()
		}
		if sp.Role == "reader" {
			b, err := encode(EncSpec{Impl: "std", Kind: sp.Set.Kind, Level: sp.Set.Level, Window: 32768, Data: sp.Data, Dict: sp.Set.Dict})
			if err != nil {
				emit(CEvent{Ev: "Crash", Case: c.ID, Panic: "harness: " + err.Error()})
				return
			}
			j.stream = b
		} else {
			var buf bytes.Buffer
			set := sp.Set
			set.Impl = "fastgo"
			u, err := newWriter(set, &buf, j.dict)
			if err == nil {
				u.w.Write(j.data)
				err = u.w.Close()
			}
			if err != nil {
				emit(CEvent{Ev: "Crash", Case: c.ID, Panic: "harness: " + err.Error()})
				return
			}
			j.want = append([]byte{}, buf.Bytes()...)
		}
		jobs[i] = j
	}
	var wg sync.WaitGroup
	start := make(chan struct{})
	for _, j := range jobs {
		wg.Add(1)
		go func(j *job) {
			defer wg.Done()
			defer func() {
				if x := recover(); x != nil {
					j.pan = panicString(x)
				}
			}()
			<-start
			out := make([]byte, len(j.data)+64)
			var ru readerUnderTest
			var wu wUnderTest
			var buf bytes.Buffer
			set := j.spec.Set
			set.Impl = "fastgo"
			for k := 0; k < c.Hammer; k++ {
				if j.spec.Role == "reader" {
					var err error
					src := bytes.NewReader(j.stream)
					if k%2 == 0 || ru.reset == nil {
						ru, err = newReader("fastgo", set.Kind, src, j.dict)
					} else {
						err = ru.reset(src, j.dict)
					}
					if err != nil {
						j.err++
						ru = readerUnderTest{}
						continue
					}
					n, err := io.ReadFull(ru.r, out[:len(j.data)])
					if err != nil && len(j.data) > 0 {
						j.err++
						continue
					}
					if m, e2 := ru.r.Read(out[n:]); m != 0 || e2 != io.EOF {
						j.err++
					}
					if !bytes.Equal(out[:n], j.data) {
						j.bad++
					}
				} else {
					buf.Reset()
					if k%2 == 0 || wu.w == nil {
						var err error
						if wu, err = newWriter(set, &buf, j.dict); err != nil {
							j.err++
							continue
						}
					} else {
						wu.reset(&buf)
					}
					if _, err := wu.w.Write(j.data); err != nil {
						j.err++
					}
					if err := wu.w.Close(); err != nil {
						j.err++
					}
					if !bytes.Equal(buf.Bytes(), j.want) {
						j.bad++
					}
				}
			}
		}(j)
	}
	close(start)
	wg.Wait()
	for i, j := range jobs {
		emit(CEvent{Ev: "Inst", Case: c.ID, Idx: i, Role: j.spec.Role, Equal: j.bad == 0, ErrSame: j.err == 0, Panic: j.pan, Steps: c.Hammer})
	}
	emit(CEvent{Ev: "End", Case: c.ID})
}
