package main

import (
	"encoding/json"
	"fmt"
	"os"
	"path/filepath"
	"strings"
	"time"

	"verif/harness/tlc"
)

// TLCRun is the record of one TLC invocation in the evidence file.
type TLCRun struct {
	Module   string  `json:"module"`
	Cfg      string  `json:"cfg"`
	Mode     string  `json:"mode"`
	States   int64   `json:"distinct_states"`
	Trans    int64   `json:"states_generated"`
	Diameter int     `json:"diameter"`
	Wall     float64 `json:"wall_s"`
	Violated string  `json:"violated,omitempty"`
}

// Evidence accumulates what a check run actually covered.
type Evidence struct {
	Level       string
	Runs        []TLCRun
	States      int64
	ModelStates int64 // distinct states of model-checking and generation runs (not trace validation)
	Trans       int64
	Traces      int // traces recorded from the real code and validated
	StdTraces   int // traces recorded from the standard library and validated (R3)
	Events      int
	Evaluations int
	Distinct    map[string]bool // hashes of distinct non-trivial cases
	Rule        string
	Samples     []interface{}
	Exhaustive  bool
	Levels      []int
	Assumptions []string
	Violations  int
	Known       []string
	Extra       map[string]interface{}
	Explanation string
}

func (e *Evidence) addTLC(r tlc.Run, res *tlc.Result) {
	mode := "exhaustive"
	if r.Simulate != "" {
		mode = "simulate " + r.Simulate
	}
	e.Runs = append(e.Runs, TLCRun{Module: r.Module, Cfg: r.Cfg, Mode: mode, States: res.Distinct, Trans: res.Generated,
		Diameter: res.Diameter, Wall: res.Wall.Seconds(), Violated: res.Violated})
	e.States += res.Distinct
	e.Trans += res.Generated
	if !strings.HasPrefix(r.Cfg, "TV_") {
		e.ModelStates += res.Distinct
	}
}

func (e *Evidence) nontrivial(key string) {
	if e.Distinct == nil {
		e.Distinct = map[string]bool{}
	}
	e.Distinct[key] = true
}

func (e *Evidence) sample(v interface{}) {
	if len(e.Samples) < 6 {
		e.Samples = append(e.Samples, v)
	}
}

func (c *Ctx) writeEvidence() error {
	e := &c.ev
	cov := map[string]interface{}{
		"states":                          e.States,
		"transitions":                     e.Trans,
		"traces_validated_against_impl":   e.Traces,
		"traces_validated_against_stdlib": e.StdTraces,
		"events_validated":                e.Events,
		"evaluations":                     e.Evaluations,
		"distinct_nontrivial":             len(e.Distinct),
		"rule":                            e.Rule,
		"samples":                         e.Samples,
		"exhaustive":                      e.Exhaustive,
		"tlc_runs":                        e.Runs,
		"acceleration_levels":             e.Levels,
		"known_findings_reported":         append([]string{}, e.Known...),
		"model_states":                    e.ModelStates,
		"trace_validation_states":         e.States - e.ModelStates,
	}
	if e.Explanation != "" {
		cov["explanation"] = e.Explanation
	}
	for k, v := range e.Extra {
		cov[k] = v
	}
	if e.Samples == nil {
		cov["samples"] = []interface{}{}
	}
	doc := map[string]interface{}{
		"property_id": c.Prop,
		"tier":        c.Tier,
		"seed":        c.Seed,
		"level":       e.Level,
		"coverage":    cov,
		"assumptions": e.Assumptions,
		"wall_s":      time.Since(c.Start).Seconds(),
		"violations":  e.Violations,
	}
	b, err := json.MarshalIndent(doc, "", " ")
	if err != nil {
		return err
	}
	dir := filepath.Join(c.Root, "evidence")
	os.MkdirAll(dir, 0o755)
	return os.WriteFile(filepath.Join(dir, fmt.Sprintf("%s.json", c.Prop)), append(b, '\n'), 0o644)
}

// spread picks up to four elements spread over a slice (samples for the evidence file).
func spread[T any](xs []T) []T {
	if len(xs) <= 4 {
		return xs
	}
	return []T{xs[len(xs)/7], xs[len(xs)/3], xs[2*len(xs)/3], xs[len(xs)-1-len(xs)/9]}
}
