package main

import (
	"bytes"
	"encoding/hex"
	"encoding/json"
	"fmt"
	"io"
	"os"

	fgflate "github.com/intel/fastgo/compress/flate"
	"verif/harness/refinflate"
)

// explainReplay prints, for a reader replay file, the bytes of its last
// stream and what each decoder makes of them (debugging aid).
func explainReplay(path string) int {
	b, err := os.ReadFile(path)
	if err != nil {
		fmt.Println(err)
		return 2
	}
	var r Replay
	json.Unmarshal(b, &r)
	var c RCase
	if err := json.Unmarshal(r.Case, &c); err != nil || len(c.Segs) == 0 {
		fmt.Println("not a reader case")
		return 2
	}
	seg := c.Segs[len(c.Segs)-1]
	data, err := seg.Stream.Build()
	if err != nil {
		fmt.Println(err)
		return 2
	}
	fmt.Printf("kind=%s len=%d hex=%s\n", c.Kind, len(data), hex.EncodeToString(data[:minInt(len(data), 400)]))
	if c.Kind == "flate" {
		ref := refinflate.Inflate(data, refinflate.Options{LazyEOB: true})
		fmt.Printf("ref: state=%s err=%s out=%d endbit=%d blocks=%d incomplete=%v noeob=%v\n", ref.State, ref.Err, len(ref.Out), ref.EndBit, len(ref.Blocks), ref.Incomplete, ref.NoEOB)
		sv, so := stdDecode("flate", data, nil, true)
		fmt.Printf("std: %s out=%d\n", sv, len(so))
		out, e := io.ReadAll(fgflate.NewReader(bytes.NewReader(data)))
		fmt.Printf("fastgo(fresh, bytes.Reader): err=%v out=%d\n", e, len(out))
	}
	return 0
}
