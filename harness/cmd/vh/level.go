package main

import "github.com/intel/fastgo"

func hostLevel() int { return fastgo.VerifHostLevel() }
