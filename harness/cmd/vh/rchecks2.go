package main

import (
	"encoding/hex"
	"fmt"
	"math/rand"

	"verif/harness/synth"
)

var exactKinds = []RSource{
	{Kind: "bufio", BufSize: 16}, {Kind: "bufio", BufSize: 17}, {Kind: "bufio", BufSize: 100}, {Kind: "bufio", BufSize: 4095},
	{Kind: "bufio", BufSize: 4096}, {Kind: "bufio", BufSize: 65536},
	{Kind: "bytesReader"}, {Kind: "bytesBuffer"}, {Kind: "stringsReader"}, {Kind: "byteReader"},
}

func srcWith(base RSource, chunks []int) RSource {
	base.Chunks, base.FailAt, base.Released = chunks, -1, -1
	return base
}

func srcTag(s RSource) string {
	if s.Kind == "bufio" {
		return fmt.Sprintf("bufio%d", s.BufSize)
	}
	return s.Kind
}

// ---------------------------------------------------------------------------
// C05: the source is positioned exactly at the end of the stream

func init() { checks["C05"] = checkC05 }

func checkC05(c *Ctx) (int, error) {
	c.mech = true
	c.ev.Level = "model_checking"
	c.ev.Assumptions = []string{"enumerated: source kind x constructor (NewReader | Reset) x suffix length x container kind x encoder, on seeded streams whose final block ends at varying bit offsets (observed offsets are counted in the evidence)",
		"the discard arithmetic is model-checked in ReaderMech for every final bit offset of its streams"}
	if err := c.readerModels(); err != nil {
		return 0, err
	}
	rng := rand.New(rand.NewSource(c.Seed))
	n := 16
	if c.Tier == "thorough" {
		n = 200
	}
	suffixes := []int{0, 1, 7, 8, 9, 24, 25, 40, 100, 5000}
	var cases []*RCase
	id := 0
	for _, kind := range []string{"flate", "gzip", "zlib"} {
		streams := corpus(rng, kind, n, 70000)
		for si, st := range streams {
			for ki, ek := range exactKinds {
				for _, ctor := range []string{"new", "reset", "reset3"} {
					if ctor == "reset3" && (si+ki)%2 == 1 {
						continue
					}
					sfx := suffixes[(si+ki+id)%len(suffixes)]
					s := st.s
					if sfx > 0 {
						s.Mut = []Mutation{{Op: "append", N: sfx, Seed: int64(id)}}
					}
					src := srcWith(ek, chunkSchedules[(si+ki)%len(chunkSchedules)])
					seg := RSeg{Stream: s, Src: src, Reads: readSchedules[(si+ki*2)%len(readSchedules)], Multi: false}
					cs := &RCase{ID: fmt.Sprintf("C05-%d", id), Kind: kind, Arch: c.Levels[id%len(c.Levels)], Tag: fmt.Sprintf("%s|%s|%s|sfx%d", st.name, srcTag(ek), ctor, sfx)}
					id++
					if ctor == "reset" {
						// first use the Reader on another small stream, completely
						fs := encStream("std", kind, 6, DataSpec{Class: "text", Seed: int64(id), Len: 50}, nil)
						fs.Mut = []Mutation{{Op: "append", N: 1 + id%90, Seed: int64(id)}}
						first := RSeg{Stream: fs, Src: srcWith(RSource{Kind: []string{"bytesReader", "bufio", "bufio"}[id%3], BufSize: []int{4096, 64, 4096}[id%3]}, nil), Reads: []int{4096}, Multi: false}
						cs.Segs = []RSeg{first, seg}
					} else if ctor == "reset3" {
						// a Reader that owns its buffering (plain source), then the caller's source, then a plain
						// source again: the caller's source of the middle stream keeps what followed the stream
						mk := func(k int) RSeg {
							fs := encStream("std", kind, 6, DataSpec{Class: "text", Seed: int64(id + k), Len: 50 + 20*k}, nil)
							fs.Mut = []Mutation{{Op: "append", N: 1 + (id+k)%90, Seed: int64(id + k)}}
							return RSeg{Stream: fs, Src: plainSrc(chunkSchedules[(id+k)%len(chunkSchedules)]), Reads: []int{4096}, Multi: false}
						}
						cs.Segs = []RSeg{mk(0), seg, mk(1)}
					} else {
						cs.Segs = []RSeg{seg}
					}
					cases = append(cases, cs)
					c.ev.nontrivial(cs.Tag)
					if len(st.s.Enc) > 0 && st.s.Enc[0].Impl == "fastgo" && ek.Kind == "bufio" && sfx > 16 {
						// streams that end in a Huffman block (only fastgo's writers make them): every other level too
						for _, a := range c.Levels {
							if a != cs.Arch {
								d := *cs
								d.ID, d.Arch = fmt.Sprintf("%s@A%d", cs.ID, a), a
								d.Segs = append([]RSeg{}, cs.Segs...)
								cases = append(cases, &d)
							}
						}
					}
				}
			}
		}
	}
	c.ev.Rule = fmt.Sprintf("%d streams per container kind (flate, gzip, zlib; 8 encoders) x source kinds {bufio 16,17,100,4095,4096,65536; bytes.Reader; bytes.Buffer; strings.Reader; custom ByteReader} x {NewReader, Reset after another stream, Reset between two streams from plain (non-buffered) sources} with a suffix of 0..5000 bytes, rotating chunk/read schedules and acceleration levels; after io.EOF the unread remainder of the caller's source must be exactly the suffix; gzip in Multistream(false) mode; distinct by (stream, source kind, constructor, suffix)", n)
	c.ev.Exhaustive = true
	for _, cs := range spread(cases) {
		c.ev.sample(map[string]interface{}{"case": cs.Tag})
	}
	return c.readerRun("c05", cases, true)
}

// ---------------------------------------------------------------------------
// C11: the Reader delivers what it has

func init() { checks["C11"] = checkC11 }

func checkC11(c *Ctx) (int, error) {
	c.mech = true
	c.ev.Level = "model_checking"
	c.ev.Assumptions = []string{"decided at the instant the Reader asks a gated source for bytes beyond the released prefix (no timer): at that instant everything decodable from the prefix must already have been returned",
		"prefixes: every sync-flush point and the end of seeded streams; chunkings of the prefix and behaviours after it (would block / error) enumerated"}
	if err := c.readerModels(); err != nil {
		return 0, err
	}
	rng := rand.New(rand.NewSource(c.Seed))
	n := 8
	if c.Tier == "thorough" {
		n = 150
	}
	var cases []*RCase
	id := 0
	for _, kind := range []string{"flate", "gzip", "zlib"} {
		for i := 0; i < n; i++ {
			ln := pick(rng, []int{40, 300, 5000, 70000})
			d := randData(rng, ln)
			f1 := 1 + rng.Intn(ln)
			f2 := f1 + rng.Intn(ln-f1+1)
			enc := []struct {
				impl  string
				level int
			}{{"std", 6}, {"std", -2}, {"fastgo", 1}, {"fastgo", 2}, {"std", 0}}[i%5]
			st := encStream(enc.impl, kind, enc.level, d, []int{f1, f2})
			b, err := st.Build()
			if err != nil {
				return 0, err
			}
			// the sync points are positions in these very bytes: every worker gets them as they are
			// (fastgo's encoders choose matches differently per acceleration level)
			st = RStream{Hex: hex.EncodeToString(b)}
			o := oracleFor(kind, b, nil, true)
			points := []int{len(b)}
			for _, s := range o.Syncs {
				points = append(points, s.ByteEnd)
			}
			// unrelated bytes after a sync point, delivered together with the prefix or later
			for _, sp := range o.Syncs {
				for gi, ch := range [][]int{{0}, {sp.ByteEnd}, {3}} {
					g := st
					g.Mut = []Mutation{{Op: "trunc", Pos: sp.ByteEnd}, {Op: "append", N: 20 + rng.Intn(200), Seed: int64(id)}}
					src := RSource{Kind: []string{"plain", "bufio"}[gi%2], BufSize: 4096, Chunks: ch, FailAt: -1, Released: -1, After: "garbage", Garbage: sp.ByteEnd}
					cs := &RCase{ID: fmt.Sprintf("C11-%d", id), Kind: kind, Arch: c.Levels[id%len(c.Levels)],
						Tag:  fmt.Sprintf("%s-%s%d|at%d/%d|garbage|%v", kind, enc.impl, enc.level, sp.ByteEnd, len(b), ch),
						Segs: []RSeg{{Stream: g, Src: src, Reads: readSchedules[id%len(readSchedules)], Multi: true}}}
					id++
					cases = append(cases, cs)
					c.ev.nontrivial(cs.Tag)
				}
			}
			for _, p := range points {
				for _, after := range []string{"block", "error"} {
					for _, ch := range [][]int{{0}, {1}, {3}, {4096}} {
						for _, sk := range []RSource{{Kind: "plain"}, {Kind: "bufio", BufSize: 4096}, {Kind: "bufio", BufSize: 64}, {Kind: "seeker"}, {Kind: "rich"}} {
							src := sk
							src.Chunks, src.FailAt, src.Released, src.After = ch, -1, p, after
							cs := &RCase{ID: fmt.Sprintf("C11-%d", id), Kind: kind, Arch: c.Levels[id%len(c.Levels)],
								Tag:  fmt.Sprintf("%s-%s%d|at%d/%d|%s|%v|%s", kind, enc.impl, enc.level, p, len(b), after, ch, srcTag(sk)),
								Segs: []RSeg{{Stream: st, Src: src, Reads: readSchedules[id%len(readSchedules)], Multi: true}}}
							id++
							cases = append(cases, cs)
							c.ev.nontrivial(cs.Tag)
						}
					}
				}
			}
		}
	}
	// streams whose FINAL block is a stored block ending exactly where the output window is full
	for _, total := range []int{65536, 98304, 131072, 65535, 65537, 70000} {
		for _, sl := range []int{1, 100, 30000} {
			hx, err := storedFinalHex(rng, total, sl)
			if err != nil {
				return 0, err
			}
			st := RStream{Hex: hx}
			b, _ := st.Build()
			for _, after := range []string{"block", "error"} {
				for _, sk := range []RSource{{Kind: "plain"}, {Kind: "bufio", BufSize: 4096}} {
					src := sk
					src.Chunks, src.FailAt, src.Released, src.After = []int{0}, -1, len(b), after
					cs := &RCase{ID: fmt.Sprintf("C11-%d", id), Kind: "flate", Arch: c.Levels[id%len(c.Levels)],
						Tag:  fmt.Sprintf("flate-synth-storedfinal|%d/%d|at-end|%s|%s", total, sl, after, srcTag(sk)),
						Segs: []RSeg{{Stream: st, Src: src, Reads: readSchedules[id%len(readSchedules)], Multi: true}}}
					id++
					cases = append(cases, cs)
					c.ev.nontrivial(cs.Tag)
				}
			}
		}
	}
	// streams whose FINAL block is a Huffman block that ends just behind a full output window, with
	// the end-of-block code ending at every bit position of the last byte: once the last byte has
	// arrived, the rest of the stream is in the Reader's bit buffer, not in its input buffer
	for _, base := range []int{65536, 98304} {
		for d := -2; d <= 4; d++ {
			for m := 0; m < 8; m++ {
				b := finalFixedLiterals(base+d, m)
				st := RStream{Hex: hexOf(b)}
				for ai, after := range []string{"block", "error"} {
					sk := []RSource{{Kind: "plain"}, {Kind: "bufio", BufSize: 4096}}[(m+ai)%2]
					src := sk
					src.Chunks, src.FailAt, src.Released, src.After = [][]int{{0}, {4096}, {1}}[(m+d+2)%3], -1, len(b), after
					cs := &RCase{ID: fmt.Sprintf("C11-%d", id), Kind: "flate", Arch: c.Levels[id%len(c.Levels)],
						Tag:  fmt.Sprintf("flate-synth-fixedfinal|%d%+d/%d|at-end|%s|%s", base, d, m, after, srcTag(sk)),
						Segs: []RSeg{{Stream: st, Src: src, Reads: readSchedules[id%len(readSchedules)], Multi: true}}}
					id++
					cases = append(cases, cs)
					c.ev.nontrivial(cs.Tag)
				}
			}
		}
	}
	c.ev.Rule = fmt.Sprintf("%d streams per kind (flate, gzip, zlib) with two Flush points; the source releases the bytes up to each sync point / the stream end in chunks {all,1,3,4096} and then would block or fails; sources {plain, bufio 4096, bufio 64}; judged at the gate and at the final result; distinct by (stream, prefix, after, chunking, source)", n)
	c.ev.Exhaustive = true
	for _, cs := range spread(cases) {
		c.ev.sample(map[string]interface{}{"case": cs.Tag})
	}
	return c.readerRun("c11", cases, true)
}

// ---------------------------------------------------------------------------
// C15: failing source

func init() { checks["C15"] = checkC15 }

func checkC15(c *Ctx) (int, error) {
	c.mech = true
	c.ev.Level = "fault_enumeration"
	c.ev.Assumptions = []string{"the source fails after k bytes for EVERY k in 0..len-1 of each stream (streams up to the stated size; longer ones at a stride), error alone or together with the last bytes, fresh error value per case"}
	if err := c.readerModels(); err != nil {
		return 0, err
	}
	rng := rand.New(rand.NewSource(c.Seed))
	limit, n := 600, 4
	if c.Tier == "thorough" {
		limit, n = 6000, 24
	}
	var cases []*RCase
	id := 0
	for _, kind := range []string{"flate", "gzip", "zlib"} {
		for i := 0; i < n; i++ {
			ln := pick(rng, []int{0, 30, 700, 3000, 20000})
			d := randData(rng, ln)
			var fl []int
			if ln > 2 {
				fl = []int{ln / 2}
			}
			st := encStream([]string{"std", "fastgo"}[i%2], kind, []int{6, 1, -2, 2}[i%4], d, fl)
			if kind == "gzip" && i%2 == 1 {
				st.Enc = append(st.Enc, st.Enc[0]) // two members
			}
			b, err := st.Build()
			if err != nil {
				return 0, err
			}
			stride := 1
			if len(b) > limit {
				stride = len(b)/limit + 1
			}
			for k := 0; k < len(b); k += stride {
				src := RSource{Kind: []string{"plain", "bufio", "bufio"}[k%3], BufSize: []int{4096, 16, 4096}[k%3], Chunks: chunkSchedules[(k+i)%len(chunkSchedules)], FailAt: k, FailData: k%2 == 1, Released: -1,
					ErrKind: errKinds[(k/2+i)%len(errKinds)]}
				cs := &RCase{ID: fmt.Sprintf("C15-%d", id), Kind: kind, Arch: c.Levels[id%len(c.Levels)],
					Tag:  fmt.Sprintf("%s-%d|fail@%d/%d|%s|data=%v|err=%s", kind, i, k, len(b), srcTag(src), src.FailData, src.ErrKind),
					Segs: []RSeg{{Stream: st, Src: src, Reads: [][]int{{1}, {4096}, {7}}[k%3], Multi: true}}}
				id++
				cases = append(cases, cs)
				c.ev.nontrivial(cs.Tag)
			}
		}
	}
	c.ev.Rule = fmt.Sprintf("%d streams per kind (flate, gzip incl. two members, zlib); the source fails after k bytes for every k (stride > 1 above %d bytes), alternating error-alone / error-with-data, error values {plain, wrapping io.EOF, wrapping io.ErrUnexpectedEOF, wrapping bufio.ErrBufferFull, claiming to be io.EOF through an Is method} compared by identity, sources {plain, bufio16, bufio4096}, Read sizes {1,7,4096}, rotating acceleration levels; distinct by (stream, k, source)", n, limit)
	c.ev.Exhaustive = true
	for _, cs := range spread(cases) {
		c.ev.sample(map[string]interface{}{"case": cs.Tag})
	}
	return c.readerRun("c15", cases, true)
}

// ---------------------------------------------------------------------------
// C13: Reader.Reset == new Reader

func init() { checks["C13"] = checkC13 }

func checkC13(c *Ctx) (int, error) {
	c.ev.Level = "model_checking"
	c.ev.Assumptions = []string{"earlier histories enumerated over {stream class} x {stop point: before the first Read, mid-stream with undelivered output, at EOF, after corrupt input, after a source error}; next inputs: valid, truncated, and malformed streams whose back-references reach before their own start; payloads are seeded samples",
		"the result after Reset is compared with a fresh Reader's on the same input and both are judged by ReaderContract"}
	if err := c.readerModels(); err != nil {
		return 0, err
	}
	rng := rand.New(rand.NewSource(c.Seed))
	n := 12
	if c.Tier == "thorough" {
		n = 100
	}
	var cases []*RCase
	id := 0
	for _, kind := range []string{"flate", "gzip", "zlib"} {
		firsts := corpus(rng, kind, n, 100000)
		for fi, f1 := range firsts {
			// what comes next
			var nexts []namedStream
			nexts = append(nexts, corpus(rng, kind, 2, 50000)...)
			tr := nexts[0]
			if b, err := tr.s.Build(); err == nil && len(b) > 3 {
				tr.s.Mut = []Mutation{{Op: "trunc", Pos: 1 + rng.Intn(len(b)-1)}}
				tr.name += "-trunc"
				nexts = append(nexts, tr)
			}
			if kind == "flate" {
				for _, lb := range [][2]int{{3, 1}, {3, 5}, {258, 1}, {10, 300}, {258, 32768}, {4, 4096}} {
					nexts = append(nexts, namedStream{name: fmt.Sprintf("lookback-l%d-d%d", lb[0], lb[1]), kind: kind, s: RStream{Hex: lookbackStreamHex(lb[0], lb[1])}})
				}
			}
			if kind == "flate" {
				// synthesised next inputs: fixed blocks with matches (the tables a fixed block needs must be reloaded), random shapes
				fx := synth.Desc{Seed: rng.Int63n(1 << 40), Blocks: []synth.BlockDesc{{Type: "fixed", LShape: "flat", DShape: "flat", Toks: "mixed", N: 20 + rng.Intn(200)}}}
				nexts = append(nexts, namedStream{name: "synth-fixed", kind: kind, s: RStream{Synth: &SynthSpec{fx}}},
					namedStream{name: "synth-random", kind: kind, s: RStream{Synth: &SynthSpec{synth.RandomDesc(rng, 3, 300)}}})
			}
			if kind == "gzip" {
				two := RStream{Enc: []EncSpec{{Impl: "std", Kind: "gzip", Level: 6, Window: 32768, Data: randData(rng, 500)}, {Impl: "fastgo", Kind: "gzip", Level: 1, Window: 32768, Data: randData(rng, 3000)}}}
				nexts = append(nexts, namedStream{name: "gzip-two-members", kind: kind, s: two})
			}
			if kind == "zlib" {
				dd := DataSpec{Class: "text", Seed: int64(fi), Len: 400}
				d := randData(rng, 3000)
				d.Class = "text"
				nexts = append(nexts, namedStream{name: "zlib-dict", kind: kind, dict: &dd,
					s: RStream{Enc: []EncSpec{{Impl: "std", Kind: "zlib", Level: 6, Window: 32768, Data: d, Dict: &dd}}}})
				// a dictionary longer than the window, and a payload that repeats its end
				ld := DataSpec{Class: "text", Seed: int64(1000 + fi), Len: 33000 + 9000*(fi%3)}
				nexts = append(nexts, namedStream{name: "zlib-longdict", kind: kind, dict: &ld,
					s: RStream{Enc: []EncSpec{{Impl: "std", Kind: "zlib", Level: 6, Window: 32768, Data: DataSpec{Class: "dicttail", Seed: ld.Seed, Period: ld.Len, Len: 5000}, Dict: &ld}}}})
			}
			for ni, nx := range nexts {
				for stop, stopName := range []string{"unread", "partial", "eof", "corrupt", "srcerr", "fault", "single"} {
					h1 := RSeg{Stream: f1.s, Src: srcWith(RSource{Kind: "plain"}, []int{0}), Reads: []int{10}, Multi: true}
					var h0 *RSeg
					switch stopName {
					case "fault":
						// two earlier streams: a fixed-block one, then one with an injected fault (every kind over the run)
						if kind != "flate" {
							continue
						}
						fx := synth.Desc{Seed: rng.Int63n(1 << 40), Blocks: []synth.BlockDesc{{Type: "fixed", LShape: "flat", DShape: "flat", Toks: "mixed", N: 50}}}
						h0 = &RSeg{Stream: RStream{Synth: &SynthSpec{fx}}, Src: srcWith(RSource{Kind: "bytesReader"}, nil), Reads: []int{4096}, Multi: true}
						fk := synth.FaultKinds[(id+fi+ni)%len(synth.FaultKinds)]
						h1.Stream = RStream{Synth: &SynthSpec{synth.RandomFaultDesc(rng, fk, (id+ni)%2 == 0)}}
						h1.Reads = []int{4096}
					case "single":
						// gzip: the earlier stream was read in Multistream(false) mode; Reset must restore the default
						if kind != "gzip" {
							continue
						}
						h1.Multi = false
						h1.Reads = []int{4096}
					case "unread":
						h1.Stop, h1.Reads = 1, []int{1}
					case "partial":
						h1.Stop = 1 + rng.Intn(3)
					case "eof":
						h1.Reads = []int{4096}
					case "corrupt":
						h1.Stream.Mut = []Mutation{{Op: "flip", Pos: 40 + rng.Intn(400)}}
						h1.Reads = []int{4096}
					case "srcerr":
						h1.Src.FailAt = 5 + rng.Intn(20)
						h1.Reads = []int{4096}
					}
					if nx.dict != nil && stopName == "eof" {
						// the earlier stream has a dictionary too: another one of the same length
						od := *nx.dict
						od.Seed += 77
						h1.Stream = RStream{Enc: []EncSpec{{Impl: "std", Kind: "zlib", Level: 6, Window: 32768, Data: DataSpec{Class: "text", Seed: od.Seed, Len: 900}, Dict: &od}}}
						h1.Dict = &od
						h1.Reads = []int{4096}
					}
					arch := c.Levels[id%len(c.Levels)]
					group := fmt.Sprintf("C13-%s-%d-%d-%d", kind, fi, ni, stop)
					next := RSeg{Stream: nx.s, Src: srcWith(RSource{Kind: "bufio", BufSize: 4096}, chunkSchedules[(fi+ni)%len(chunkSchedules)]), Reads: readSchedules[(ni+stop)%len(readSchedules)], Multi: true, Dict: nx.dict}
					fresh := &RCase{ID: fmt.Sprintf("C13-%d-fresh", id), Kind: kind, Arch: arch, Group: group, GClause: "C13.same_as_fresh", Tag: "fresh|" + nx.name, Segs: []RSeg{next}}
					if !(nx.dict != nil && stopName == "eof") {
						h1.Dict = nil
					}
					reused := &RCase{ID: fmt.Sprintf("C13-%d-reset", id), Kind: kind, Arch: arch, Group: group, GClause: "C13.same_as_fresh",
						Tag: fmt.Sprintf("%s|%s|then %s", f1.name, stopName, nx.name), Segs: []RSeg{h1, next}}
					if h0 != nil {
						reused.Segs = []RSeg{*h0, h1, next}
					}
					id++
					cases = append(cases, fresh, reused)
					c.ev.nontrivial(reused.Tag)
					if stop < 3 && ni < 3 {
						// the next stream on a source that is not a *bufio.Reader - a new object, or the very
						// object the Reader was using (a bytes.Reader / strings.Reader re-targeted with its own Reset)
						k2 := []string{"bytesReader", "stringsReader", "plain", "byteReader"}[(id+stop)%4]
						same := k2 == "bytesReader" || k2 == "stringsReader"
						g2 := group + "-nb"
						n2 := next
						n2.Src = srcWith(RSource{Kind: k2}, chunkSchedules[(fi+ni+1)%len(chunkSchedules)])
						f2 := &RCase{ID: fmt.Sprintf("C13-%d-nb-fresh", id), Kind: kind, Arch: arch, Group: g2, GClause: "C13.same_as_fresh", Tag: "fresh|" + nx.name + "|" + k2, Segs: []RSeg{n2}}
						h2 := h1
						if same {
							// the earlier stream is long enough for the Reader's own read-ahead to hold bytes
							// of it when it is abandoned, and is followed by other data when it is read to its end
							h2.Stream = encStream("std", kind, 6, DataSpec{Class: "text", Seed: int64(id), Len: 60000}, nil)
							h2.Stream.Mut = []Mutation{{Op: "append", N: 3000, Seed: int64(id)}}
							h2.Multi = false
							h2.Src = srcWith(RSource{Kind: k2}, nil)
							n2.SameSrc = true
						}
						r2 := &RCase{ID: fmt.Sprintf("C13-%d-nb-reset", id), Kind: kind, Arch: arch, Group: g2, GClause: "C13.same_as_fresh",
							Tag: fmt.Sprintf("%s|%s|then %s|%s same=%v", f1.name, stopName, nx.name, k2, same), Segs: []RSeg{h2, n2}}
						id++
						cases = append(cases, f2, r2)
						c.ev.nontrivial(r2.Tag)
					}
				}
			}
		}
	}
	c.ev.Rule = fmt.Sprintf("%d first streams per kind x stop point {before first Read, partial with undelivered output, EOF, corrupt, source error, a fixed-block stream followed by a stream with an injected fault (flate, all 17 kinds), read in Multistream(false) mode (gzip)} x next input {2 valid, truncated, lookback-before-start, synthesised fixed/random blocks (flate), two-member file (gzip), dictionary stream (zlib)}; the segment after Reset is compared with a fresh Reader on the same input (group clause) and judged by the contract; distinct by (first, stop, next)", n)
	c.ev.Exhaustive = true
	for _, cs := range spread(cases) {
		c.ev.sample(map[string]interface{}{"case": cs.Tag})
	}
	// only the last segment of a case takes part in the comparison
	for _, cs := range cases {
		cs.GroupLast = true
	}
	return c.readerRun("c13", cases, true)
}

// lookbackStreamHex: a fixed-Huffman block whose first token is a match of
// the given length and distance at output position 0 (malformed: there is
// nothing to copy from), followed by end-of-block.
func lookbackStreamHex(length, dist int) string {
	return fixedMatchHex(length, dist)
}
